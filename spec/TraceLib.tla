------------------------------ MODULE TraceLib ------------------------------
(* Shared idiom of the *_Trace specifications.                                 *)
(* A trace spec consumes one recorded operation per step: it binds the spec's  *)
(* variables to the recorded post-state and evaluates, INSIDE the step, every   *)
(* action predicate / invariant of the property on (pre-state, arguments,       *)
(* post-state).  Violated clauses are accumulated in `viol` as <<line, clause>> *)
(* so one rejection does not leave the rest of the trace unexamined.  Clauses    *)
(* explained by a Dev_* deviation of an OPEN finding are recorded once, as       *)
(* <<0, "KNOWN:<id>">>.  Acceptance = every line consumed and viol empty.        *)
EXTENDS Sequences, FiniteSets, Integers
IsKnownClause(c) == Len(c) > 6 /\ SubSeq(c, 1, 6) = "KNOWN:"
Cap == 40
AddViol(viol, l, bad) ==
  LET new == { <<IF IsKnownClause(c) THEN 0 ELSE l, c>> : c \in bad }
      nreal == Cardinality({ v \in viol : v[1] # 0 })
  IN IF nreal >= Cap THEN viol \cup { v \in new : v[1] = 0 } ELSE viol \cup new
=============================================================================
