------------------------------ MODULE OracleInd ------------------------------
(* The oracle round life cycle of OracleSM (tips, reports, bridge-deposit         *)
(* rounds, end-block aggregation and rotation with clearing), typed for          *)
(* Apalache, with an INDUCTIVE invariant: for any number of blocks and messages  *)
(* no accepted report is ever stranded (a round with reports is always still     *)
(* open or closing in the current block), there is one round per ordinary query, *)
(* an open cycle-list round belongs to the current cycle-list query, round ids   *)
(* are fresh and the rotation index stays inside the list.  Tip amounts are      *)
(* integers; windows are a constant function.                                    *)
EXTENDS Integers, Sequences, FiniteSets, Apalache

CONSTANTS
  \* @type: Seq(Str);
  CL,
  \* @type: Set(Str);
  OtherQ,
  \* @type: Set(Str);
  DepQ,
  \* @type: Str -> Int;
  Win,
  \* @type: Int;
  DepWin

VARIABLES
  \* @type: Int;
  h,
  \* @type: Set($round);
  qs,
  \* @type: Int;
  nextId,
  \* @type: Int;
  idx

\* @typeAlias: round = {q: Str, id: Int, amt: Int, exp: Int, cyc: Bool, rep: Bool, win: Int};
OracleInd_aliases == TRUE

CInit == /\ CL = <<"a", "b", "c">> /\ OtherQ = {"x"} /\ DepQ = {"d"}
         /\ Win = [q \in {"a", "b", "c", "x", "d"} |-> IF q = "b" THEN 3 ELSE IF q = "x" THEN 1 ELSE 2]
         /\ DepWin = 2000
AllQ == { CL[i] : i \in DOMAIN CL } \union OtherQ \union DepQ
N == Len(CL)

RoundsOf(q) == { r \in qs : r.q = q }
HasCur(q) == RoundsOf(q) # {}
\* @type: (Str) => $round;
Cur(q) == CHOOSE r \in RoundsOf(q) : \A s \in RoundsOf(q) : s.id <= r.id
\* @type: (Str, Int, Int, Int, Bool, Bool, Int) => $round;
NewRound(q, id, amt, exp, cyc, rep, w) == [q |-> q, id |-> id, amt |-> amt, exp |-> exp, cyc |-> cyc, rep |-> rep, win |-> w]

Init == /\ h = 1 /\ idx = 0 /\ nextId = 2
        /\ qs = {NewRound(CL[1], 1, 0, 1 + Win[CL[1]], TRUE, FALSE, Win[CL[1]])}

Tip(q, a) ==
  /\ a > 0 /\ q \notin DepQ
  /\ IF HasCur(q)
     THEN LET c == Cur(q) IN
          /\ qs' = (qs \ {c}) \union {IF c.exp < h THEN [c EXCEPT !.amt = @ + a, !.exp = h + c.win, !.cyc = FALSE] ELSE [c EXCEPT !.amt = @ + a]}
          /\ nextId' = nextId
     ELSE /\ qs' = qs \union {NewRound(q, nextId, a, h + Win[q], FALSE, FALSE, Win[q])}
          /\ nextId' = nextId + 1
  /\ UNCHANGED <<h, idx>>

SubmitNormal(q) ==
  /\ q \notin DepQ /\ HasCur(q)
  /\ LET c == Cur(q) IN
     /\ (c.amt # 0 \/ c.cyc) /\ h <= c.exp
     /\ qs' = (qs \ {c}) \union {[c EXCEPT !.rep = TRUE]}
  /\ UNCHANGED <<h, idx, nextId>>

SubmitDeposit(q) ==
  /\ q \in DepQ
  /\ IF ~HasCur(q)
     THEN qs' = qs \union {NewRound(q, nextId, 0, h + DepWin, TRUE, TRUE, DepWin)} /\ nextId' = nextId + 1
     ELSE LET c == Cur(q) IN
          IF c.amt = 0 /\ c.exp <= h
          THEN qs' = qs \union {[c EXCEPT !.id = nextId, !.exp = h + c.win, !.rep = TRUE]} /\ nextId' = nextId + 1
          ELSE IF c.amt # 0 /\ c.exp <= h
          THEN qs' = (qs \ {c}) \union {[c EXCEPT !.exp = h + c.win, !.rep = TRUE]} /\ nextId' = nextId
          ELSE qs' = (qs \ {c}) \union {[c EXCEPT !.rep = TRUE]} /\ nextId' = nextId
  /\ UNCHANGED <<h, idx>>

EndBlock ==
  LET rem == { r \in qs : ~(r.rep /\ r.exp <= h) }
      cq == CL[idx + 1]
      curs == { r \in rem : r.q = cq }
      stillOpen == curs # {} /\ (CHOOSE r \in curs : \A s \in curs : s.id <= r.id).exp > h
      i2 == IF idx >= N - 1 THEN 0 ELSE idx + 1
      nq == CL[i2 + 1]
      cleared == rem \ { r \in rem : r.q = nq /\ r.exp < h /\ ~r.rep /\ r.amt = 0 }
      nexts == { r \in cleared : r.q = nq }
  IN
  /\ h' = h + 1
  /\ IF stillOpen THEN qs' = rem /\ idx' = idx /\ nextId' = nextId
     ELSE /\ idx' = i2
          /\ IF nexts = {}
             THEN qs' = cleared \union {NewRound(nq, nextId, 0, h + Win[nq], TRUE, FALSE, Win[nq])} /\ nextId' = nextId + 1
             ELSE LET c == CHOOSE r \in nexts : \A s \in nexts : s.id <= r.id IN
                  /\ nextId' = nextId
                  /\ qs' = IF c.amt # 0 THEN (cleared \ {c}) \union {[c EXCEPT !.cyc = TRUE, !.exp = IF c.exp <= h THEN h + c.win ELSE c.exp]} ELSE cleared

Next == \/ \E q \in AllQ : \E a \in 1 .. 3 : Tip(q, a)
        \/ \E q \in AllQ : SubmitNormal(q) \/ SubmitDeposit(q)
        \/ EndBlock

\* ---- the inductive invariant ----
\* @type: ($round) => Bool;
GoodRound(r) ==
  /\ r.q \in AllQ /\ r.id < nextId /\ r.amt >= 0 /\ r.win > 0
  /\ (r.rep => r.exp >= h)                                   \* no accepted report is stranded
  /\ (r.exp >= h => r.exp <= h + r.win)
  /\ (r.q \in DepQ => r.rep /\ r.cyc)
  /\ ((r.q \notin DepQ /\ r.cyc /\ r.exp >= h) => r.q = CL[idx + 1])   \* an open cycle round is the current cycle query's
  /\ (r.rep /\ r.q \notin DepQ => (r.amt # 0 \/ r.cyc))
IndInv ==
  /\ h >= 1 /\ idx >= 0 /\ idx < N
  /\ \A r \in qs : GoodRound(r)
  /\ \A r \in qs : \A s \in qs : (r.q = s.q /\ r.q \notin DepQ) => r = s          \* one round per ordinary query
  /\ \A r \in qs : \A s \in qs : (r.q = s.q /\ r.id = s.id) => r = s
  \* the current cycle-list query always has a round that is open or expires in this block (rotation cannot stall)
  /\ \E r \in qs : r.q = CL[idx + 1] /\ r.exp >= h - 1

IndInit == /\ h \in Int /\ idx \in Int /\ nextId \in Int /\ qs = Gen(4) /\ IndInv
=============================================================================
