------------------------------- MODULE Rewards -------------------------------
(* C09: each reward is split exactly, non-negatively and in proportion to       *)
(* backing stake.                                                                *)
(* A payout has a reward R (loya) and rewarded aggregates; an aggregate is a      *)
(* sequence of reports [rep, pow, comm (18-dec rate), origins [total, origins]].  *)
(*   contributed(r) = sum of the powers of r's reports in the rewarded aggregates *)
(*   Part(r)        = R * contributed(r) / total power                            *)
(*   Commission(r)  = rate(r) * Part(r)   (credited to r, once)                   *)
(*   Share(r, s)    = (Part(r) - Commission(r)) * stake(r,s) / stake(r)           *)
(* Amounts are compared in units of 10^-24 loya (credits are stored with 18       *)
(* decimals; the extra 6 digits make the floor of the exact rational negligible    *)
(* against the stated tolerance of 10^-18 per credit).                             *)
EXTENDS Num, Integers, Sequences, FiniteSets

E18 == Pow10(18)
E6 == Pow10(6)
E24 == Pow10(24)
Range(s) == { s[i] : i \in DOMAIN s }

\* all reports of a payout (sequence of aggregates, each a sequence of reports), flattened to a set of <<a, i>>
Idx(aggs) == { <<a, i>> : a \in DOMAIN aggs, i \in 1 .. 8 } \cap { <<a, i>> \in (DOMAIN aggs) \X (1 .. 8) : i <= Len(aggs[a]) }
Reporters(aggs) == { aggs[x[1]][x[2]].rep : x \in Idx(aggs) }
Contributed(aggs, r) == LET X == { x \in Idx(aggs) : aggs[x[1]][x[2]].rep = r } IN NSum([x \in X |-> aggs[x[1]][x[2]].pow], X)
TotalPower(aggs) == NSum([x \in Idx(aggs) |-> aggs[x[1]][x[2]].pow], Idx(aggs))
\* the stake snapshot used for r: the one recorded with r's report (any of r's reports in this payout may serve)
Snapshots(aggs, r) == { aggs[x[1]][x[2]].origins : x \in { y \in Idx(aggs) : aggs[y[1]][y[2]].rep = r } }
RateOf(aggs, r) == (CHOOSE x \in Idx(aggs) : aggs[x[1]][x[2]].rep = r) 

\* Part(r) in 10^-24 loya (floor)
Part24(R, aggs, r) == ((R ** E24) ** Contributed(aggs, r)) // TotalPower(aggs)
\* commission in 10^-24 (rate is an 18-decimal magnitude in [0, 10^18])
Comm24(part24, rate18) == (part24 ** rate18) // E18
\* selector stake inside a snapshot
StakeIn(snap, s) == LET I == { i \in DOMAIN snap.origins : snap.origins[i].del = s } IN NSum([i \in I |-> snap.origins[i].amt.mag], I)
Backers(snap) == { snap.origins[i].del : i \in DOMAIN snap.origins }
Share24(net24, snap, s) == (net24 ** StakeIn(snap, s)) // snap.total.mag

\* expected credit (10^-24 loya) of selector s from reporter r under snapshot snap
Expected24(R, aggs, r, snap, rate18, s) ==
  LET p == Part24(R, aggs, r)
      c == Comm24(p, rate18)
  IN Share24(p -- c, snap, s) ++ (IF s = r THEN c ELSE Zero)

\* |a - b| <= tol
Within(a, b, tol) == AbsDiff(a, b) \preceq tol
=============================================================================
