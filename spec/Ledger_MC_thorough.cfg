SPECIFICATION Spec
CONSTANTS
  Rate = 7
  MsPerDay = 5
  Gaps = {1, 2, 7, 11}
  Amts = {1, 3}
  MaxT = 22
INVARIANTS InflationBound NoMintBeforeStart
PROPERTY SplitExact
CONSTRAINT Bound
CHECK_DEADLOCK FALSE
