----------------------------- MODULE StakeGuard -----------------------------
(* C18: staking transactions cannot move bonded stake more than 5% per 12 h.   *)
(*   base    bonded stake recorded at the start of the tracking period          *)
(*   expiry  end of the period                                                  *)
(* A transaction is a sequence of messages [kind, amt]; kinds that add stake:   *)
(* create, delegate, redelegate, cancel; that remove stake: undelegate.         *)
EXTENDS Num, Integers, Sequences, FiniteSets

Adding == {"create", "delegate", "redelegate", "cancel"}
Removing == {"undelegate"}
SumKinds(tx, K) == NSumSeq([i \in DOMAIN tx |-> IF tx[i].kind \in K THEN tx[i].amt ELSE Zero])
Inc(tx) == SumKinds(tx, Adding)
Dec(tx) == SumKinds(tx, Removing)
HasStaking(tx) == \E i \in DOMAIN tx : tx[i].kind \in (Adding \cup Removing)
Twentieth(b) == b // N(20)

\* admission: ALL staking messages of the transaction together
\* (each bound constrains the messages that push in its direction: a transaction without
\*  undelegations is not rejected because stake already fell below 95% for other reasons, and
\*  vice versa - otherwise stake could never move back towards the baseline)
Admit(base, bonded, tx) ==
  /\ (~IsZero(Inc(tx))) => ((bonded ++ Inc(tx)) \preceq (base ++ Twentieth(base)))
  /\ (~IsZero(Dec(tx))) => (((base -- Twentieth(base)) ++ Dec(tx)) \preceq bonded)

\* what a per-message rule would do (NOT the property; used to show the enumerated cases tell the two apart)
AdmitEach(base, bonded, tx) ==
  \A i \in DOMAIN tx : Admit(base, bonded, << tx[i] >>)

\* refresh: only in end-block, only once the period has expired
TwelveHoursMs == N(43200000)
RefreshAt(base, expiry, bonded, now, base2, expiry2, period) ==
  IF expiry \preceq now THEN base2 = bonded /\ expiry2 = now ++ period
  ELSE base2 = base /\ expiry2 = expiry
=============================================================================
