---------------------------- MODULE Chain_Trace ----------------------------
(* C02 binding: histories recorded from the production app (all message types, *)
(* boundary and malformed inputs, block-time gaps 1 ms .. > 21 d) must be      *)
(* behaviours of Chain.tla.  Every BeginBlock / EndBlock record carries the    *)
(* real result of App.BeginBlocker / App.EndBlocker (error or recovered panic). *)
(* A failing automatic phase has no action in Chain.tla except the Dev_*        *)
(* deviations enabled for findings listed in known_findings.jsonl (KNOWN).      *)
EXTENDS Chain, Json, TLC, TraceLib
CONSTANT KNOWN      \* set of open finding ids for this property
Trace == ndJsonDeserialize("trace.ndjson")
VARIABLES l, viol, hist
tvars == <<l, viol, hist, cvars>>

Init == l = 1 /\ viol = {} /\ hist = 0 /\ ChainInit(0, Zero)

Contains(s, sub) == \E i \in 1 .. (Len(s) - Len(sub) + 1) : SubSeq(s, i, i + Len(sub) - 1) = sub

\* identity of each recorded (open) finding: which failing phase it explains
DevId(e) == "none"

Step ==
  /\ l <= Len(Trace)
  /\ LET e == Trace[l]
         reset == e.hist # hist
         isBegin == e.ev = "BeginBlock"
         isEnd == e.ev = "EndBlock"
         bad ==
           IF reset /\ ~isBegin THEN {"HistoryStartsWithBeginBlock"}
           ELSE IF isBegin THEN
              (IF e.ok THEN {} ELSE (IF DevId(e) \in KNOWN THEN {"KNOWN:" \o DevId(e)} ELSE {"BeginBlockCompletes"}))
              \cup (IF ~reset /\ phase # "idle" THEN {"BlockStructure"} ELSE {})
              \cup (IF ~reset /\ halted THEN {"NoBlockAfterHalt"} ELSE {})
              \cup (IF ~reset /\ e.h # height + 1 THEN {"HeightsContiguous"} ELSE {})
              \cup (IF ~reset /\ ~(e.tn = now ++ e.dtn /\ e.dtn \succeq MinGap) THEN {"TimeAdvances"} ELSE {})
           ELSE IF isEnd THEN
              (IF e.ok THEN {} ELSE (IF DevId(e) \in KNOWN THEN {"KNOWN:" \o DevId(e)} ELSE {"EndBlockCompletes"}))
              \cup (IF phase # "open" \/ halted THEN {"BlockStructure"} ELSE {})
           ELSE
              (IF phase # "open" \/ halted THEN {"MessageOutsideBlock"} ELSE {})
              \cup (IF e.h # height THEN {"MessageHeight"} ELSE {})
     IN /\ hist' = e.hist
        /\ phase' = IF isBegin THEN "open" ELSE IF isEnd THEN "idle" ELSE phase
        /\ height' = IF isBegin THEN e.h ELSE height
        /\ now' = IF isBegin THEN e.tn ELSE now
        /\ halted' = IF isBegin THEN ~e.ok ELSE IF isEnd THEN ~e.ok ELSE halted
        /\ viol' = AddViol(viol, l, bad)
        /\ l' = l + 1
Spec == Init /\ [][Step]_tvars
Done == (l = Len(Trace) + 1) => PrintT(<<"VIOLS", ToJson(viol)>>)
Accepted == TLCGet("stats").diameter - 1 = Len(Trace)
=============================================================================
