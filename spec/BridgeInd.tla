------------------------------ MODULE BridgeInd ------------------------------
(* The deposit side of the token bridge (BridgeSM: aggregates appear, are        *)
(* flagged, checkpoints are taken, time passes, deposits are claimed), typed for *)
(* Apalache, with an INDUCTIVE invariant: for any number of steps, aggregates,   *)
(* checkpoints and any passage of time                                            *)
(*  - a deposit id is turned into tokens at most once, whichever of its           *)
(*    aggregates is named,                                                        *)
(*  - only from an aggregate that was at least 12 hours old at the claim and met  *)
(*    the power threshold in force when it was reported, and                      *)
(*  - that threshold is never changed by later checkpoints.                        *)
(* A batch claim is the sequential composition of single claims (Bridge!BatchOk), *)
(* so the single claim is the step.  Checkpoints form a set with distinct          *)
(* timestamps; mints is the history of successful claims.                          *)
EXTENDS Integers, FiniteSets, Apalache

VARIABLES
  \* @type: Int;
  now,
  \* @type: Set(Int);
  claimed,
  \* @type: Set($agg);
  aggs,
  \* @type: Set($cp);
  cps,
  \* @type: Set($mint);
  mints

\* @typeAlias: agg = {id: Int, idx: Int, flag: Bool, ts: Int, pow: Int};
\* @typeAlias: cp = {ts: Int, thr: Int};
\* @typeAlias: mint = {id: Int, idx: Int, at: Int};
BridgeInd_aliases == TRUE

CInit == TRUE
TwelveHours == 43200000

\* the threshold in force at ts is that of the latest checkpoint strictly before ts
\* @type: (Set($cp), Int, Int) => Bool;
MeetsThresholdAt(C, ts, pow) ==
  \E c \in C : /\ c.ts < ts
               /\ \A d \in C : d.ts < ts => d.ts <= c.ts
               /\ c.thr <= pow

Init == now = 1 /\ claimed = {} /\ aggs = {} /\ cps = {} /\ mints = {}

NewAggregate(id, idx, pow) ==
  /\ pow >= 0 /\ idx >= 0
  /\ \A a \in aggs : ~(a.id = id /\ a.idx = idx)
  /\ aggs' = aggs \union {[id |-> id, idx |-> idx, flag |-> FALSE, ts |-> now, pow |-> pow]}
  /\ UNCHANGED <<now, claimed, cps, mints>>
Flag(a) == /\ a \in aggs /\ aggs' = (aggs \ {a}) \union {[a EXCEPT !.flag = TRUE]} /\ UNCHANGED <<now, claimed, cps, mints>>
Checkpoint(thr) ==
  /\ \A c \in cps : c.ts < now
  /\ cps' = cps \union {[ts |-> now, thr |-> thr]} /\ UNCHANGED <<now, claimed, aggs, mints>>
Tick(d) == d > 0 /\ now' = now + d /\ UNCHANGED <<claimed, aggs, cps, mints>>
Claim(a) ==
  /\ a \in aggs /\ ~a.flag /\ a.id \notin claimed
  /\ MeetsThresholdAt(cps, a.ts, a.pow)
  /\ a.ts + TwelveHours <= now
  /\ claimed' = claimed \union {a.id}
  /\ mints' = mints \union {[id |-> a.id, idx |-> a.idx, at |-> now]}
  /\ UNCHANGED <<now, aggs, cps>>

Next == \/ \E id \in Int, idx \in Int, pow \in Int : NewAggregate(id, idx, pow)
        \/ \E a \in aggs : Flag(a)
        \/ \E thr \in Int : Checkpoint(thr)
        \/ \E d \in Int : Tick(d)
        \/ \E a \in aggs : Claim(a)

\* ---- the property ----
MintedAtMostOncePerDeposit == \A m1 \in mints : \A m2 \in mints : m1.id = m2.id => m1 = m2
MintedOnlyFromQualifiedAggregates ==
  \A m \in mints : \E a \in aggs : /\ a.id = m.id /\ a.idx = m.idx
                                   /\ a.ts + TwelveHours <= m.at
                                   /\ MeetsThresholdAt(cps, a.ts, a.pow)
\* ---- what makes it inductive ----
IndInv ==
  /\ now >= 1
  /\ \A a \in aggs : a.ts <= now /\ a.ts >= 1
  /\ \A a \in aggs : \A b \in aggs : (a.id = b.id /\ a.idx = b.idx) => a = b      \* (id, index) names one aggregate
  /\ \A c \in cps : c.ts <= now
  /\ \A c \in cps : \A d \in cps : c.ts = d.ts => c = d
  /\ \A m \in mints : m.id \in claimed /\ m.at <= now
  /\ MintedAtMostOncePerDeposit
  /\ MintedOnlyFromQualifiedAggregates

IndInit == /\ now \in Int /\ claimed = Gen(4) /\ aggs = Gen(4) /\ cps = Gen(4) /\ mints = Gen(4) /\ IndInv
=============================================================================
