---------------------------- MODULE Ledger_Trace ----------------------------
(* C03 binding: every recorded operation of a history on the production app     *)
(* must change total supply (bank GetSupply) exactly as the matching Ledger      *)
(* action says; bank supply must equal the sum of ALL account balances after     *)
(* every operation; a rejected message must leave the bank untouched.            *)
EXTENDS Ledger, Json, TLC, TraceLib
CONSTANT KNOWN
Trace == ndJsonDeserialize("trace.ndjson")
VARIABLES l, viol, hist, bank, disp, dust, payers,
          minted   \* inferred: bridge deposit ids that have been turned into tokens in this history
tvars == <<l, viol, hist, bank, disp, dust, payers, minted, lvars>>

Range(s) == { s[i] : i \in DOMAIN s }
RateV == N(146940000)
MsPerDayV == N(86400000)
NsPerMsV == Pow10(6)
Init == /\ l = 1 /\ viol = {} /\ hist = 0 /\ bank = <<>> /\ disp = <<>> /\ dust = Zero /\ payers = <<>> /\ minted = {}
        /\ supply = Zero /\ minit = FALSE /\ hasprev = FALSE /\ prev = Zero /\ tbr = Zero /\ lnow = Zero /\ ivals = <<>>

\* ---- dispute executions observed across a begin-block (burn by ExecuteVote) ----
SumGroup(g) == g[1] ++ g[2] ++ g[3]
Counts(d) == IF "counts" \in DOMAIN d
             THEN SumGroup(d.counts.users) ++ SumGroup(d.counts.reporters) ++ SumGroup(d.counts.holders) ++ SumGroup(d.counts.team)
             ELSE Zero
Executed(d) == "vote" \in DOMAIN d /\ d.vote.executed
NewlyExecuted(pre, post) == { d \in Range(post) : Executed(d) /\ ~(\E p \in Range(pre) : p.id = d.id /\ Executed(p)) }
TotalVotes(ds, d) == LET ids == Range(d.prev) \cup {d.id}
                         f == [i \in ids |-> IF \E x \in Range(ds) : x.id = i THEN Counts(CHOOSE x \in Range(ds) : x.id = i) ELSE Zero]
                     IN NSum(f, ids)
\* a dispute execution burns half of its burn amount (the other half is the voters' pot), or all of it when nobody
\* voted in the round that is executed (votes of earlier rounds do not count here: ExecuteVote reads the executed round first, N-10)
BurnChoices(pre, post) ==
  LET NE == NewlyExecuted(pre, post) IN
  { NSum([d \in NE |-> IF IsZero(Counts(d)) THEN d.burn ELSE d.burn // N(2)], NE) }

\* a claimed deposit adds its reported amount to the supply - once: ids already turned into tokens (earlier in the history, or
\* earlier in the same message) add nothing
FirstClaims(e) == { i \in DOMAIN e.claims : e.claims[i].id \notin minted /\ \A j \in 1 .. i - 1 : e.claims[j].id # e.claims[i].id }
ClaimTotal(e) == NSum([i \in FirstClaims(e) |-> e.claims[i].dec.amount // Pow10(12)], FirstClaims(e))

\* primed ledger variables are bound to the recorded post-state first; then the action is a test
Check(e) ==
  LET b == e.post.bank
      frame == IF LOther THEN {} ELSE {"SupplyUnchanged_" \o e.ev}
  IN
  (IF b.supply = b.sumbal THEN {} ELSE {"SupplyEqualsSumOfBalances"})
  \cup
  (IF e.ev = "BeginBlock" THEN
       (IF e.ok THEN
          (IF \E burn \in BurnChoices(disp, e.post.dispute.disputes) : LBegin(e.dtn, burn) THEN {} ELSE {"MintAndBurnExact"})
       ELSE {})
   ELSE IF ~e.ok THEN (IF b = bank THEN {} ELSE {"RejectedMessageLeavesBankUntouched"})
   ELSE IF e.ev = "EndBlock" THEN (IF LPayout(b.bal.tbr) THEN {} ELSE {"EndBlockKeepsSupply"})
   ELSE IF e.ev = "Tip" THEN (IF LTip(e.amt) THEN {} ELSE {"TipBurnsTwoPercent"})
   ELSE IF e.ev = "WithdrawTokens" THEN (IF LWithdraw(e.amt) THEN {} ELSE {"WithdrawalBurnsAmount"})
   ELSE IF e.ev = "ClaimDeposits" THEN (IF LClaim(ClaimTotal(e)) THEN {} ELSE {"ClaimMintsReportedAmount"})
   ELSE IF e.ev = "MintInit" THEN (IF LStartMint THEN {} ELSE {"MintInitOnlyStartsMinting"})
   ELSE IF e.ev = "WithdrawFeeRefund" THEN
        \* burned whole loya b: b*10^6 + dust' - dust = fractions added, 0 <= fractions < 2*10^6
        \* (a refund from a failed - never fully funded - dispute also burns the payer's part of the 5% burn)
        LET DR == { d \in { disp[i] : i \in DOMAIN disp } : d.id = e.id /\ d.status = 4 }
            PR == { p \in { payers[i] : i \in DOMAIN payers } : p.id = e.id /\ p.who = e.payer }
            pburn == IF e.ok /\ DR # {} /\ PR # {} THEN LET d == CHOOSE x \in DR : TRUE p == CHOOSE x \in PR : TRUE IN (p.amt ** (d.feetotal // N(20))) // d.feetotal ELSE Zero
            bdust == Monus(Monus(supply, b.supply), pburn)
            lhs == (bdust ** Pow10(6)) ++ e.post.dispute.dust
        \* and what is carried over is below one unit (whole units of dust are burned with the withdrawal that completes them)
        IN (IF b.supply \preceq supply /\ LDustBurn(bdust ++ pburn) /\ pburn \preceq Monus(supply, b.supply) /\ dust \preceq lhs /\ (lhs -- dust) \prec (N(2) ** Pow10(6))
               /\ (~e.ok \/ e.post.dispute.dust \prec Pow10(6))
            THEN {} ELSE {"RefundBurnsOnlyAccumulatedDust"})
   ELSE frame)
  \cup (IF InflationBoundAt(ivals', lnow') THEN {} ELSE {"InflationBound"})
  \cup (IF NoMintBeforeStartAt(minit', ivals') THEN {} ELSE {"NoMintBeforeStart"})

Step ==
  /\ l <= Len(Trace)
  /\ LET e == Trace[l]
         b == e.post.bank
         reset == e.hist # hist
         t == IF e.ev = "BeginBlock" THEN e.tn ELSE IF reset THEN e.tn ELSE lnow
     IN /\ hist' = e.hist
        /\ supply' = b.supply /\ minit' = b.minter.init /\ hasprev' = b.minter.hasprev /\ prev' = b.minter.prevn
        /\ tbr' = b.bal.tbr /\ lnow' = t
        /\ bank' = b /\ disp' = e.post.dispute.disputes /\ dust' = e.post.dispute.dust /\ payers' = e.post.dispute.payers
        /\ minted' = (IF reset THEN {} ELSE minted) \cup (IF e.ev = "ClaimDeposits" /\ e.ok THEN { e.claims[i].id : i \in DOMAIN e.claims } ELSE {})
        /\ ivals' = IF reset THEN << [t0 |-> t, minted |-> Zero] >>
                    ELSE IF e.ev = "BeginBlock" /\ e.ok
                         THEN LET x == Provision(t)
                                  added == AddMinted(ivals, x)
                              IN IF e.h % 6 = 0 THEN (IF Len(added) >= 3 THEN Tail(added) ELSE added) \o << [t0 |-> t, minted |-> Zero] >>
                                 ELSE added
                         ELSE ivals
        /\ viol' = IF reset THEN viol ELSE AddViol(viol, l, Check(e))
        /\ l' = l + 1
Spec == Init /\ [][Step]_tvars
Done == (l = Len(Trace) + 1) => PrintT(<<"VIOLS", ToJson(viol)>>)
Accepted == TLCGet("stats").diameter - 1 = Len(Trace)
=============================================================================
