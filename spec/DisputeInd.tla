----------------------------- MODULE DisputeInd -----------------------------
(* The dispute life cycle of DisputeSM (status / flags / clocks; fees and the    *)
(* tally's arithmetic abstracted: whether a payment completes the fee and what   *)
(* a tally decides are nondeterministic), typed for Apalache, with an INDUCTIVE  *)
(* invariant: for any number of steps, any block times and any tally outcomes    *)
(* the begin-blocker never meets a dispute it cannot execute (C02 for disputes). *)
EXTENDS Integers, FiniteSets, Apalache

CONSTANTS
  \* @type: Set(Str);
  Hashes,
  \* @type: Int;
  Day

VARIABLES
  \* @type: Int;
  now,
  \* @type: Set($dispute);
  ds,
  \* @type: Int;
  nextId,
  \* @type: Bool;
  halted

\* @typeAlias: dispute = {id: Int, hash: Str, status: Int, round: Int, open: Bool, pending: Bool, endn: Int, vhas: Bool, vend: Int, result: Int, executed: Bool};
DisputeInd_aliases == TRUE

CInit == Hashes = {"h1", "h2"} /\ Day = 2
PREVOTE == 0  VOTING == 1  RESOLVED == 2  UNRESOLVED == 3  FAILED == 4

Init == now = 1 /\ ds = {} /\ nextId = 1 /\ halted = FALSE

OfHash(h) == { d \in ds : d.hash = h }
\* @type: ($dispute) => Bool;
IsLatest(d) == \A x \in OfHash(d.hash) : x.id <= d.id

\* @type: (Int, Str, Bool) => $dispute;
NewDispute(id, h, funded) ==
  [id |-> id, hash |-> h, status |-> IF funded THEN VOTING ELSE PREVOTE, round |-> 1, open |-> TRUE, pending |-> FALSE,
   endn |-> now + (IF funded THEN 3 * Day ELSE Day), vhas |-> funded, vend |-> IF funded THEN now + 2 * Day ELSE 0,
   result |-> 0, executed |-> FALSE]

ProposeNew(h, funded) ==
  /\ OfHash(h) = {}
  /\ ds' = ds \union {NewDispute(nextId, h, funded)} /\ nextId' = nextId + 1
  /\ UNCHANGED <<now, halted>>
\* @type: ($dispute) => Bool;
ProposeRound(old) ==
  /\ old \in ds /\ IsLatest(old) /\ old.status = UNRESOLVED /\ old.open /\ old.endn >= now
  /\ ds' = (ds \ {old}) \union
           { [old EXCEPT !.open = FALSE, !.pending = FALSE],
             [old EXCEPT !.id = nextId, !.status = VOTING, !.endn = now + 3 * Day, !.round = @ + 1, !.vhas = TRUE, !.vend = now + 2 * Day,
                         !.result = 0, !.executed = FALSE] }
  /\ nextId' = nextId + 1
  /\ UNCHANGED <<now, halted>>
\* @type: ($dispute, Bool) => Bool;
AddFee(d, completes) ==
  /\ d \in ds /\ d.status = PREVOTE /\ d.endn >= now
  /\ ds' = (ds \ {d}) \union {IF completes THEN [d EXCEPT !.status = VOTING, !.endn = now + 3 * Day, !.vhas = TRUE, !.vend = now + 2 * Day] ELSE d}
  /\ UNCHANGED <<now, nextId, halted>>
\* a vote; res = 0: still voting, 1..3: quorum reached
\* @type: ($dispute, Int) => Bool;
Vote(d, res) ==
  /\ d \in ds /\ d.status = VOTING /\ d.vhas /\ d.vend >= now /\ res \in 0 .. 3
  /\ ds' = (ds \ {d}) \union {IF res = 0 THEN d ELSE [d EXCEPT !.status = RESOLVED, !.open = FALSE, !.pending = TRUE, !.result = res, !.vend = now]}
  /\ UNCHANGED <<now, nextId, halted>>

\* begin-block at time t with tally outcome function res (quorum: 1..3, none: 4..6) chosen per dispute
\* @type: ($dispute, Int) => Bool;
NeedsTally(d, t) == d.open /\ d.status = VOTING /\ d.vhas /\ d.vend < t /\ d.result = 0
\* @type: ($dispute, Int, Int) => $dispute;
Expire(d, t, r) ==
  IF d.open /\ d.status = PREVOTE /\ d.endn < t THEN [d EXCEPT !.status = FAILED, !.open = FALSE]
  ELSE IF NeedsTally(d, t) THEN
       (IF r <= 3 THEN [d EXCEPT !.status = RESOLVED, !.open = FALSE, !.pending = TRUE, !.result = r, !.vend = t]
        ELSE IF d.endn < t THEN [d EXCEPT !.status = RESOLVED, !.open = FALSE, !.pending = TRUE, !.result = r, !.vend = t]
        ELSE [d EXCEPT !.status = UNRESOLVED, !.pending = TRUE, !.result = r, !.vend = t])
  ELSE d
\* @type: ($dispute, Int) => Bool;
Due(d, t) == d.pending /\ (d.endn < t \/ d.status = RESOLVED)
\* @type: ($dispute, Int) => Int;
ExecStatus(d, t) == IF d.result # 0 /\ d.endn < t THEN RESOLVED ELSE d.status
\* @type: ($dispute, Int) => Bool;
ExecFails(d, t) == ExecStatus(d, t) # RESOLVED \/ d.executed \/ d.result = 0
Begin(t, rq, a, b) ==
  \* rq: TRUE = the tallies of this block reach quorum (result a in 1..3), FALSE = they end without quorum (b in 4..6); a block
  \* with mixed outcomes is covered because the invariant and the failure condition are per dispute
  /\ t > now
  /\ LET p1 == { Expire(d, t, IF rq THEN a ELSE b) : d \in ds } IN
     /\ halted' = (\E d \in p1 : Due(d, t) /\ ExecFails(d, t))
     /\ ds' = { IF Due(d, t) /\ ~ExecFails(d, t) THEN [d EXCEPT !.status = ExecStatus(d, t), !.executed = TRUE, !.pending = FALSE] ELSE d : d \in p1 }
  /\ now' = t /\ UNCHANGED nextId

Next ==
  \/ \E h \in Hashes : \E f \in BOOLEAN : ProposeNew(h, f)
  \/ \E d \in ds : ProposeRound(d)
  \/ \E d \in ds : \E c \in BOOLEAN : AddFee(d, c)
  \/ \E d \in ds : \E r \in 0 .. 3 : Vote(d, r)
  \/ \E t \in Int : \E rq \in BOOLEAN : \E a \in 1 .. 3 : \E b \in 4 .. 6 : Begin(t, rq, a, b)

\* ---- the inductive invariant: per dispute ----
\* @type: ($dispute) => Bool;
Good(d) ==
  /\ d.status \in 0 .. 4 /\ d.result \in 0 .. 6 /\ d.round >= 1
  /\ (d.status \in {PREVOTE, FAILED} => ~d.pending /\ ~d.vhas /\ d.result = 0 /\ ~d.executed)
  /\ (d.status = PREVOTE => d.open)
  /\ (d.status = VOTING => d.vhas /\ d.result = 0 /\ ~d.executed /\ d.vend < d.endn /\ d.open)
  /\ (d.status = UNRESOLVED => d.vhas /\ d.result \in 4 .. 6 /\ ~d.executed)
  /\ (d.status = RESOLVED => d.vhas /\ d.result \in 1 .. 6)
  /\ (d.executed => ~d.pending /\ d.status = RESOLVED)
  /\ (d.status = UNRESOLVED /\ d.open => d.pending)
\* a round that has a successor is closed for good: only the last round of a report's dispute is ever executed
\* @type: ($dispute) => Bool;
Superseded(d) == \E x \in ds : x.hash = d.hash /\ x.id > d.id
IndInv == /\ ~halted /\ Day > 0
          /\ \A d \in ds : Good(d) /\ d.id < nextId
          /\ \A d \in ds : Superseded(d) => (~d.pending /\ ~d.open /\ ~d.executed /\ d.status = UNRESOLVED)
          /\ \A d \in ds : \A x \in ds : (d.hash = x.hash /\ d.id = x.id) => d = x

IndInit ==
  /\ now \in Int /\ nextId \in Int /\ halted \in BOOLEAN
  /\ ds = Gen(3)
  /\ IndInv
=============================================================================
