INIT Init
NEXT Next
CONSTANTS
  W = {0, 1, 2}
  Totals = {0, 2, 4}
  Supply = 12
INVARIANT Emit
CHECK_DEADLOCK FALSE
