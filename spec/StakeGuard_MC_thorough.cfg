INIT Init
NEXT Next
CONSTANTS
  Bases = {2000000, 2000019, 40000000}
  MaxLen = 3
INVARIANT Emit
CHECK_DEADLOCK FALSE
