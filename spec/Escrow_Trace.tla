---------------------------- MODULE Escrow_Trace ----------------------------
(* C04 binding over recorded histories (projections bank, oracle, reporter).   *)
EXTENDS Escrow, Json, TLC, TraceLib
CONSTANT KNOWN
Trace == ndJsonDeserialize("trace.ndjson")
VARIABLES l, viol, hist, tips,
          nbond   \* inferred: number of dispute fee payments made from stake so far in this history
tvars == <<l, viol, hist, tips, nbond, evars>>
Init == /\ l = 1 /\ viol = {} /\ hist = 0 /\ nbond = 0
        /\ oracleBal = Zero /\ openTips = Zero /\ escrowBal = Zero /\ credits18 = Zero /\ bridgeBal = Zero /\ paidIn = Zero /\ credited18 = Zero /\ ncredits = 0 /\ tips = <<>>

Contains(s, sub) == \E i \in 1 .. (Len(s) - Len(sub) + 1) : SubSeq(s, i, i + Len(sub) - 1) = sub
FundsError(e) == "err" \in DOMAIN e /\ (Contains(e.err, "insufficient funds") \/ Contains(e.err, "insufficient"))

\* Dev_F12 (open finding): CreateReporter admits commission rates outside [0,1] (up to 100, and negative)
\* while the reward split uses the rate as a fraction; credits of such a reporter's selectors go negative /
\* exceed the reward.  Identity of the finding: some reporter in the state has a rate outside [0,1].
BadRate(c) == c.neg \/ (E18 \prec c.mag)
Dev_F12(e) == "F-12" \in KNOWN /\ \E r \in DOMAIN e.post.reporter.reporters : BadRate(e.post.reporter.reporters[r].comm)
Credit(e, name) == IF Dev_F12(e) THEN "KNOWN:F-12" ELSE name

Check(e) ==
  LET rp == e.post.reporter IN
  (IF OracleHoldsTipsAt(oracleBal', openTips') THEN {} ELSE {"OracleAccountEqualsOpenTips"})
  \cup (IF rp.anyneg \/ rp.sumtips18.neg THEN {Credit(e, "NoNegativeCredit")} ELSE {})
  \cup (IF rp.sumtips18.neg \/ EscrowCoversCreditsAt(escrowBal', credits18', ncredits') THEN {} ELSE {Credit(e, "TipsEscrowCoversCredits")})
  \cup (IF BridgeHoldsNothingAt(bridgeBal') THEN {} ELSE {"BridgeAccountHoldsNothing"})
  \cup (IF CreditsWithinPaidInAt(credited18', paidIn', ncredits') THEN {} ELSE {Credit(e, "CreditsNeverExceedPaidIn")})
  \cup (IF e.ev = "Tip" /\ e.ok THEN (IF TipLands(e.amt) THEN {} ELSE {"TipStaysWithQuery"}) ELSE {})
  \* (Dev_F13, open: a dispute fee paid from stake delivers up to one unit per selector less than is recorded; the dispute
  \*  account is then short by those units when the last refunds / rewards are claimed.  Identity: fees were paid from
  \*  stake earlier in this history and the bank's own figures differ by at most 16 units per such payment.)
  \cup (IF e.ev \in {"WithdrawTip", "WithdrawFeeRefund", "ClaimReward"} /\ ~e.ok /\ FundsError(e)
        THEN {IF e.ev # "WithdrawTip" /\ "F-13" \in KNOWN /\ nbond > 0 /\ "need" \in DOMAIN e /\ e.have \preceq e.need
                 /\ (e.need -- e.have) \preceq N(16 * nbond)
              THEN "KNOWN:F-13" ELSE Credit(e, "EntitledClaimFailsForLackOfFunds")}
        ELSE {})
  \cup (IF e.ev = "WithdrawTip" /\ e.ok
        THEN (IF escrowBal' \preceq escrowBal /\ WithdrawCredit(escrowBal -- escrowBal') THEN {} ELSE {"WithdrawTakesWholeCredit"})
        ELSE {})

Step ==
  /\ l <= Len(Trace)
  /\ LET e == Trace[l]
         b == e.post.bank.bal
         reset == e.hist # hist
         c18 == e.post.reporter.sumtips18.mag
     IN /\ hist' = e.hist
        /\ oracleBal' = b.oracle /\ openTips' = e.post.oracle.sumamt /\ escrowBal' = b.tipsesc /\ bridgeBal' = b.bridge
        /\ credits18' = c18
        /\ paidIn' = IF reset THEN b.tipsesc ELSE paidIn ++ Monus(b.tipsesc, escrowBal)
        /\ credited18' = IF reset THEN c18 ELSE credited18 ++ Monus(c18, credits18)
        /\ tips' = e.post.reporter.tips
        /\ nbond' = (IF reset THEN 0 ELSE nbond) + (IF e.ev \in {"ProposeDispute", "AddFeeToDispute"} /\ e.ok /\ "bond" \in DOMAIN e /\ e.bond THEN 1 ELSE 0)
        /\ ncredits' = IF reset THEN 0
                       ELSE ncredits + Cardinality({ s \in DOMAIN e.post.reporter.tips :
                               s \notin DOMAIN tips \/ (tips[s].mag \prec e.post.reporter.tips[s].mag) })
        /\ viol' = IF reset THEN viol ELSE AddViol(viol, l, Check(e))
        /\ l' = l + 1
Spec == Init /\ [][Step]_tvars
Done == (l = Len(Trace) + 1) => PrintT(<<"VIOLS", ToJson(viol)>>)
Accepted == TLCGet("stats").diameter - 1 = Len(Trace)
=============================================================================
