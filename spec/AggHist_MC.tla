---------------------------- MODULE AggHist_MC ----------------------------
(* Design level: every history of up to MaxLen aggregates over a small         *)
(* timestamp domain with any flags, probed at every argument of the domain     *)
(* (+ below and above): the lookup operators are mutually consistent            *)
(* (Before <= TsBefore, skipping exactly flagged entries; TsAfter/TsBefore      *)
(* bracket T; ByIndex enumerates the list; Current is the last entry).          *)
EXTENDS AggHist, TLC
CONSTANTS TS, MaxLen
VARIABLE s
Subs == { S \in SUBSET TS : Cardinality(S) <= MaxLen }
RECURSIVE Sorted(_)
Sorted(S) == IF S = {} THEN <<>> ELSE LET m == CHOOSE x \in S : \A y \in S : x <= y IN <<m>> \o Sorted(S \ {m})
Mk(S, F) == LET o == Sorted(S) IN [i \in DOMAIN o |-> [ts |-> o[i], nonce |-> i, flag |-> o[i] \in F, val |-> o[i]]]
Init == \E S \in Subs : \E F \in SUBSET S : s = Mk(S, F)
Stutter == UNCHANGED s
Args == TS \cup {0, 99}
Consistent ==
  /\ Chronological(s) /\ NoncesCount(s)
  /\ (s # <<>> => Current(s) = ByIndex(s, Len(s) - 1))
  /\ ByIndex(s, Len(s)).none
  /\ \A T \in Args :
       /\ (~Before(s, T).none => ~TsBefore(s, T).none /\ Before(s, T).ts <= TsBefore(s, T).ts /\ Before(s, T).ts < T)
       /\ (~TsBefore(s, T).none => TsBefore(s, T).ts < T)
       /\ (~TsAfter(s, T).none => TsAfter(s, T).ts > T)
       /\ (Before(s, T).none <=> \A i \in DOMAIN s : s[i].ts >= T \/ s[i].flag)
       /\ \A i \in DOMAIN s : (s[i].ts < T /\ ~s[i].flag) => s[i].ts <= Before(s, T).ts
=============================================================================
