-------------------------- MODULE Dispute_Fund_Trace --------------------------
(* C11 binding: slashing takes exactly the category's share of the disputed    *)
(* report's stake (projections dispute, hold, reporter, aggs).                  *)
EXTENDS Dispute, Json, TLC, TraceLib
CONSTANT KNOWN
Trace == ndJsonDeserialize("trace.ndjson")
VARIABLES l, viol, hist, disp, hold, reps, aggs, bal,
          slashedHashes   \* inferred: dispute hashes for which stake has been escrowed in this history
tvars == <<l, viol, hist, disp, hold, reps, aggs, bal, slashedHashes>>
Init == l = 1 /\ viol = {} /\ hist = 0 /\ disp = <<>> /\ hold = <<>> /\ reps = <<>> /\ aggs = <<>> /\ bal = Zero /\ slashedHashes = {}

ById(ds, id) == CHOOSE d \in Range(ds) : d.id = id
Has(ds, id) == \E d \in Range(ds) : d.id = id
HasEscrow(d) == "escrow" \in DOMAIN d
\* the dispute this funding message is about, in the post state: by id (AddFee) or the newest one (Propose)
Target(e, post) == IF e.ev = "AddFeeToDispute" THEN ById(post, e.id)
                   ELSE CHOOSE d \in Range(post) : \A x \in Range(post) : x.id <= d.id
\* funded by THIS message: its hash has an escrow record now and had none before
FundedNow(e, post) ==
  LET d == Target(e, post) IN
  HasEscrow(d) /\ ~(\E p \in Range(disp) : p.hash = d.hash /\ HasEscrow(p))

\* Dev_F14 (open): ProposeDispute never compares the report in the message with the stored micro report; a copy with an
\* altered value / power / timestamp is accepted, funded and slashed.  Identity: the named report is not in the oracle store.
Dev_F14(e) == "F-14" \in KNOWN /\ ~e.facts.genuine
\* Dev_F15 (open): shares are computed against power*10^6 instead of the recorded stake total; whenever the backing stake
\* is not a whole number of tokens every backer but the last loses too much and the last too little.
\* Identity: recorded snapshot total # power * 10^6.
Dev_F15(e) == "F-15" \in KNOWN /\ e.facts.snap.total.mag # (e.rpower ** E6)
\* ... and what the deviation takes, precisely: entry i (not the last) loses slash*amount_i/(power*10^6) rounded, the last
\* entry the remainder; a backer's loss is the sum over its entries (tolerance: one unit per snapshot entry)
DevQ(slash, snap, P, i) == (slash ** snap.origins[i].amt.mag) // P
DevEntry(slash, snap, P, i) ==
  IF i < Len(snap.origins) THEN DevQ(slash, snap, P, i)
  ELSE Monus(slash, NSum([j \in 1 .. Len(snap.origins) - 1 |-> DevQ(slash, snap, P, j)], 1 .. Len(snap.origins) - 1))
DevTake(slash, snap, P, b) == LET I == { i \in DOMAIN snap.origins : snap.origins[i].del = b } IN NSum([i \in I |-> DevEntry(slash, snap, P, i)], I)
DevF15Explains(e, slash, snap, taken(_)) ==
  Dev_F15(e) /\ \A b \in Backers(snap) : AbsDiff(taken(b), DevTake(slash, snap, e.rpower ** E6, b)) \preceq N(Len(snap.origins))

CheckFunding(e, post) ==
  LET d == Target(e, post)
      slash == SlashAmount(d.cat, e.rpower)
      snap == e.facts.snap
      h2 == e.post.hold
      taken(b) == Monus(hold[b].stake, h2[b].stake)
      feeFromBond == IF e.bond THEN (IF e.ev = "ProposeDispute" THEN e.fee ELSE e.amt) ELSE Zero
      r2 == e.post.reporter.reporters
      known == IF Dev_F14(e) THEN "KNOWN:F-14" ELSE "none"
      name(n) == IF known = "none" THEN n ELSE known
  IN
  (IF e.facts.genuine THEN {} ELSE {name("SlashOnlyForAReportReallySubmitted")})
  \* stake is escrowed when the dispute BECOMES FULLY FUNDED - not before the fee is complete
  \cup (IF d.feetotal = d.slash THEN {} ELSE {name("StakeEscrowedOnlyOnceTheFeeIsComplete")})
  \cup (IF d.hash \in slashedHashes THEN {"SlashedAtMostOncePerDispute"} ELSE {})
  \cup (IF d.slash = slash /\ d.escrow.total.mag = slash /\ ~d.escrow.total.neg THEN {} ELSE {name("SlashIsExactlyTheCategoryShare")})
  \cup (IF e.bond THEN {}   \* a fee paid from the signer's stake in the same message also reduces stake: apportioning not isolated
        ELSE (IF \A b \in Backers(snap) : b \in DOMAIN hold /\ ProportionalTake(slash, snap, b, taken(b)) THEN {} ELSE {IF DevF15Explains(e, slash, snap, taken) THEN "KNOWN:F-15" ELSE name("EachBackerLosesInProportionToContribution")})
             \cup (IF NSum([b \in Backers(snap) |-> taken(b)], Backers(snap)) = slash THEN {} ELSE {name("BackersTogetherLoseTheSlashAmount")}))
  \cup (IF Jails(d.cat)
        THEN (IF e.rep \in DOMAIN r2 /\ r2[e.rep].jailed /\ r2[e.rep].until = e.t ++ (JailSeconds(d.cat) ** N(1000)) THEN {} ELSE {name("WarningAndMinorJailTheReporter")})
        ELSE {})
  \cup (IF e.facts.determined
        THEN (IF e.q \in DOMAIN e.post.aggs /\ \E a \in Range(e.post.aggs[e.q]) : a.ts = e.facts.aggts /\ a.flag THEN {} ELSE {name("DeterminedAggregateIsFlagged")})
        ELSE {})

\* A funding message is never answered with a crash: the slash has to be able to follow the stake wherever it went (a
\* delegation, one or SEVERAL unbonding entries, a redelegation).  The one panic an open finding explains: with F-15 the
\* shares of all entries but the last can add up to more than the slash, the last entry's "remainder" is then negative
\* (identity: the sum of the other entries' deviating shares, within one unit each, exceeds the slash).
NegativeLastShare(e) ==
  LET snap == e.facts.snap
      n == Len(snap.origins)
      slash == SlashAmount(e.cat, e.rpower)
  IN n > 0 /\ slash \prec (NSum([j \in 1 .. n - 1 |-> DevQ(slash, snap, e.rpower ** E6, j)], 1 .. n - 1) ++ N(n))
CheckPanic(e) ==
  IF "panic" \notin DOMAIN e THEN {}
  ELSE IF e.panickind = "negative-coin" /\ "facts" \in DOMAIN e /\ e.facts.hassnap /\ Dev_F15(e) /\ NegativeLastShare(e) THEN {"KNOWN:F-15"}
  ELSE {"FundingMessageNeverPanics"}

CheckBegin(e, post) ==
  \* expiry: a prevote dispute fails only after its one-day deadline, and failing moves no stake
  (IF \A d \in Range(post) : (Has(disp, d.id) /\ ById(disp, d.id).status = PREVOTE /\ d.status = FAILED) => (d.endn \prec e.tn /\ ~HasEscrow(d) /\ d.endn = d.startn ++ DayNs)
   THEN {} ELSE {"UnderfundedDisputeExpiresAfterOneDayWithoutSlashing"})
  \cup (IF \A d \in Range(disp) : (d.status = PREVOTE /\ d.endn \prec e.tn) => (Has(post, d.id) /\ ById(post, d.id).status = FAILED)
        THEN {} ELSE {"ExpiredPrevoteDisputeFails"})

\* a jail term runs its time: while a reporter stays jailed its release time is never moved to an earlier moment (a second,
\* lighter dispute must not cut the ten minutes of a minor one short)
JailTermKept(e) ==
  LET r2 == e.post.reporter.reporters IN
  IF \A r \in DOMAIN reps : (r \in DOMAIN r2 /\ reps[r].jailed /\ r2[r].jailed) => reps[r].until \preceq r2[r].until
  THEN {} ELSE {"JailTermIsNeverCutShort"}
Check(e) ==
  JailTermKept(e) \cup
  LET post == e.post.dispute.disputes IN
  IF e.ev \in {"ProposeDispute", "AddFeeToDispute"} /\ e.ok /\ Range(post) # {} /\ FundedNow(e, post) THEN CheckFunding(e, post)
  ELSE IF e.ev \in {"ProposeDispute", "AddFeeToDispute"} /\ ~e.ok THEN CheckPanic(e)
  ELSE IF e.ev = "BeginBlock" /\ e.ok THEN CheckBegin(e, post)
  ELSE \* no other operation escrows stake for a dispute
       (IF \A d \in Range(post) : HasEscrow(d) => (\E p \in Range(disp) : p.hash = d.hash /\ HasEscrow(p)) THEN {} ELSE {"StakeEscrowedOnlyWhenADisputeBecomesFullyFunded_" \o e.ev})

Step ==
  /\ l <= Len(Trace)
  /\ LET e == Trace[l]
         reset == e.hist # hist
         post == e.post.dispute.disputes
     IN /\ hist' = e.hist
        /\ disp' = post /\ hold' = e.post.hold /\ reps' = e.post.reporter.reporters /\ aggs' = e.post.aggs /\ bal' = e.post.dispute.bal
        /\ slashedHashes' = (IF reset THEN {} ELSE slashedHashes) \cup { d.hash : d \in { x \in Range(post) : HasEscrow(x) } }
        /\ viol' = IF reset THEN viol ELSE AddViol(viol, l, Check(e))
        /\ l' = l + 1
Spec == Init /\ [][Step]_tvars
Done == (l = Len(Trace) + 1) => PrintT(<<"VIOLS", ToJson(viol)>>)
Accepted == TLCGet("stats").diameter - 1 = Len(Trace)
=============================================================================
