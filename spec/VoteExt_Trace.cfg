SPECIFICATION Spec
CONSTANT KNOWN = {}
INVARIANT Done
POSTCONDITION Accepted
CHECK_DEADLOCK FALSE
