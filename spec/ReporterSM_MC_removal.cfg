SPECIFICATION Spec
CONSTANTS
  Accounts = {"a", "b", "c", "d"}
  Cap0 = 3
  Unbond = 3
  MaxNow = 5
  AllowRemoval = TRUE
INVARIANT Inv
PROPERTY LocksNeverShorten
CHECK_DEADLOCK FALSE
