---------------------------- MODULE OracleSM_MC ----------------------------
(* Design-level model of the oracle round life cycle: every interleaving of    *)
(* tips, reports (normal and bridge-deposit) and block ends over a small        *)
(* universe, composed from the operators of OracleSM.  Invariants are the       *)
(* design-level content of C07 (and the C04/C09 facts that hang on rounds).     *)
EXTENDS OracleSM, TLC
CONSTANTS CL,        \* the cycle list (sequence of query names, non-empty)
          OtherQ,    \* queries outside the cycle list
          DepQ,      \* bridge deposit queries
          Reps,      \* reporters
          WinOf,     \* registry block window per query
          TipAmts,   \* tip amounts (native numbers)
          MaxH, MaxTips, MCDepWin
ASSUME Len(CL) >= 1
\* model values for the configuration files
MC_CL2 == <<"a", "b">>
MC_CL1 == <<"a">>
MC_CL3 == <<"a", "b", "c">>
MC_Win == [a |-> 1, b |-> 2, c |-> 1, d |-> 3, e |-> 2]
MC_Win2 == [a |-> 2, b |-> 1, c |-> 3, d |-> 2, e |-> 1]

VARIABLES h, qs, reps, nextId, idx, aggcount, aggh, tin, paid, ntips, sinceRot
vars == <<h, qs, reps, nextId, idx, aggcount, aggh, tin, paid, ntips, sinceRot>>
Range(s) == { s[i] : i \in DOMAIN s }
AllQ == Range(CL) \cup OtherQ \cup DepQ

Init ==
  /\ h = 1 /\ reps = {} /\ idx = 0 /\ aggcount = <<>> /\ aggh = <<>> /\ tin = 0 /\ paid = 0 /\ ntips = 0 /\ sinceRot = 0
  \* genesis: the first cycle-list query has an open round (InitGenesis rotates once)
  /\ qs = {NewRound(CL[1], 1, Zero, 1 + WinOf[CL[1]], TRUE, FALSE, WinOf[CL[1]])}
  /\ nextId = 2

Tip(q, a) ==
  /\ ntips < MaxTips /\ q \notin DepQ
  /\ qs' = TipNext(qs, h, q, N(a), nextId, WinOf[q])
  /\ nextId' = IF TipUsesId(qs, q) THEN nextId + 1 ELSE nextId
  /\ tin' = tin + TipNet(N(a)) /\ ntips' = ntips + 1
  /\ UNCHANGED <<h, reps, idx, aggcount, aggh, paid, sinceRot>>

Submit(r, q) ==
  LET kind == IF q \in DepQ THEN "deposit" ELSE "normal" IN
  /\ Admit(qs, q, kind, h, TRUE)
  /\ qs' = IF kind = "deposit" THEN SubmitDepositNext(qs, h, q, nextId) ELSE SubmitNormalNext(qs, q)
  /\ nextId' = IF kind = "deposit" /\ DepositUsesId(qs, h, q) THEN nextId + 1 ELSE nextId
  /\ LET c == LandingRound(qs', q) IN
     reps' = { x \in reps : ~(x.id = c.id /\ x.who = r) } \cup {[id |-> c.id, q |-> q, who |-> r, h |-> h, exp |-> c.exp]}
  /\ UNCHANGED <<h, idx, aggcount, aggh, tin, paid, ntips, sinceRot>>

EndBlock ==
  LET cq == CL[idx + 1]
      closing == Closing(qs, h)
      nq == CL[NextIdx(idx, Len(CL)) + 1]
      res == EndNext(qs, h, CL, idx, nextId, WinOf[nq])
  IN
  /\ h < MaxH
  /\ aggcount' = [id \in (DOMAIN aggcount) \cup { r.id : r \in closing } |->
                    (IF id \in DOMAIN aggcount THEN aggcount[id] ELSE 0) + (IF \E r \in closing : r.id = id THEN 1 ELSE 0)]
  /\ aggh' = [id \in (DOMAIN aggh) \cup { r.id : r \in closing } |-> IF id \in DOMAIN aggh THEN aggh[id] ELSE h]
  /\ paid' = paid + NSum([r \in closing |-> r.amt], closing)
  /\ qs' = res.qs /\ idx' = res.idx
  /\ nextId' = IF res.used THEN nextId + 1 ELSE nextId
  /\ sinceRot' = IF Rotates(AfterAggregation(qs, h), h, CL, idx) THEN 0 ELSE sinceRot + 1
  /\ h' = h + 1
  /\ UNCHANGED <<reps, tin, ntips>>

Next == (\E q \in AllQ, a \in TipAmts : Tip(q, a)) \/ (\E r \in Reps, q \in AllQ : Submit(r, q)) \/ EndBlock
Spec == Init /\ [][Next]_vars

\* ---------------- invariants (hold whenever messages can run, i.e. in every reachable state) -------------
Agg(id) == id \in DOMAIN aggcount
LiveIds == { r.id : r \in qs }
MaxWin == LET S == { WinOf[q] : q \in AllQ \ DepQ } \cup {MCDepWin} IN CHOOSE m \in S : \A x \in S : x <= m

\* each round aggregates at most once, and a round that aggregated is gone
EachRoundAggregatesOnce == \A id \in DOMAIN aggcount : aggcount[id] = 1 /\ id \notin LiveIds
\* no accepted report is stranded: its round is live, flagged as having reports and not yet past its close, or has aggregated
NoReportStranded == \A x \in reps : Agg(x.id) \/ (\E r \in qs : r.id = x.id /\ r.rep /\ r.exp >= h)
\* reports were accepted only while the window was open, and a round closes no earlier than its last report
ReportsOnlyIntoOpenWindow == \A x \in reps : x.h <= x.exp /\ (Agg(x.id) => x.h <= aggh[x.id])
\* an aggregated round had at least one report
AggregatedRoundsHadReports == \A id \in DOMAIN aggcount : \E x \in reps : x.id = id
\* tips are neither created nor lost: what came in is with a live round or was paid with an aggregate
TipsConserved == tin = paid + NSum([r \in qs |-> r.amt], qs)
\* one round per query (deposit queries may briefly hold the closing round next to its successor)
OneRoundPerQuery == \A q \in AllQ \ DepQ : Cardinality(RoundsOf(qs, q)) <= 1
DepositRoundsAtMostTwo == \A q \in DepQ : Cardinality(RoundsOf(qs, q)) <= 2 /\
                           (Cardinality(RoundsOf(qs, q)) = 2 => \E r \in RoundsOf(qs, q) : r.rep /\ r.exp = h)
\* the time-based reward goes to one scheduled query at a time
OneOpenCycleRound == Cardinality({ r \in qs : r.q \notin DepQ /\ r.cyc /\ r.exp >= h }) <= 1
\* an open cycle round belongs to the current cycle-list query
OpenCycleRoundIsCurrent == \A r \in qs : (r.q \notin DepQ /\ r.cyc /\ r.exp >= h) => r.q = CL[idx + 1]
\* rotation cannot stall: the index moves at least once per longest window (+1 for the same-block expiry case)
RotationNeverStalls == sinceRot <= MaxWin + 1
\* round ids are fresh
IdsFresh == \A r \in qs : r.id < nextId
Inv == /\ EachRoundAggregatesOnce /\ NoReportStranded /\ ReportsOnlyIntoOpenWindow /\ AggregatedRoundsHadReports
       /\ TipsConserved /\ OneRoundPerQuery /\ DepositRoundsAtMostTwo /\ OneOpenCycleRound /\ OpenCycleRoundIsCurrent
       /\ RotationNeverStalls /\ IdsFresh

\* ---------------- action properties -------------
RotationInOrder == [][idx' = idx \/ idx' = NextIdx(idx, Len(CL))]_vars
RotationOnlyWhenClosed == [][idx' # idx => ~CurStillOpen(AfterAggregation(qs, h), CL[idx + 1], h)]_vars
AggregatesAppendOnly == [][\A id \in DOMAIN aggcount : id \in DOMAIN aggcount' /\ aggcount'[id] = aggcount[id]]_vars
TipStaysUntilPaid == [][\A r \in qs : (~IsZero(r.amt) /\ ~(r \in Closing(qs, h) /\ h' # h)) => \E s \in qs' : s.q = r.q /\ s.id = r.id /\ r.amt \preceq s.amt]_vars
=============================================================================
