---------------------------- MODULE Stake_Trace ----------------------------
(* C05 binding over recorded histories (projection "stake" + "dispute").       *)
EXTENDS Stake, Json, TLC, TraceLib
CONSTANT KNOWN
Trace == ndJsonDeserialize("trace.ndjson")
VARIABLES l, viol, hist, disp,
          slashed   \* inferred: a validator has been slashed for an infraction in this history (a share is no longer worth one token)
tvars == <<l, viol, hist, disp, slashed, svars>>
Range(s) == { s[i] : i \in DOMAIN s }
Init == l = 1 /\ viol = {} /\ hist = 0 /\ disp = <<>> /\ slashed = FALSE /\ ledB = Zero /\ ledN = Zero /\ poolB = Zero /\ poolN = Zero

Rec(d, f) == IF f \in DOMAIN d THEN d[f] ELSE [total |-> [neg |-> FALSE, mag |-> Zero], origins |-> <<>>]
Entries(ds) == LET f == [i \in DOMAIN ds |-> Len(Rec(ds[i], "escrow").origins) + Len(Rec(ds[i], "feestake").origins)]
               IN IF ds = <<>> THEN 0 ELSE LET RECURSIVE S(_) S(i) == IF i = 0 THEN 0 ELSE f[i] + S(i - 1) IN S(Len(ds))
\* hash -> record total (magnitude), over the dispute list; rounds of one dispute share the hash
TotalOf(ds, f, hash) == IF \E d \in Range(ds) : d.hash = hash /\ f \in DOMAIN d
                        THEN (CHOOSE d \in Range(ds) : d.hash = hash /\ f \in DOMAIN d)[f].total.mag ELSE Zero
Hashes(ds) == { d.hash : d \in Range(ds) }
\* what the records say was taken by this event: new escrow totals + growth of fee-from-stake totals
TakenByRecords(pre, post) ==
  LET H == Hashes(post)
      g == [h \in H |-> Monus(TotalOf(post, "escrow", h), TotalOf(pre, "escrow", h)) ++ Monus(TotalOf(post, "feestake", h), TotalOf(pre, "feestake", h))]
  IN NSum(g, H)
RecordsOk(ds) == \A d \in Range(ds) : RecordSums(Rec(d, "escrow")) /\ RecordSums(Rec(d, "feestake"))

Check(e) ==
  LET st == e.post.stake
      ds == e.post.dispute.disputes
      k == Entries(disp) + 1
      returning == e.ev \in {"BeginBlock", "WithdrawFeeRefund", "WithdrawTip"}
      taking == e.ev \in {"ProposeDispute", "AddFeeToDispute"}
  IN
  (IF st.posshares THEN {} ELSE {"EveryDelegationHasPositiveShares"})
  \cup (IF st.nonneg THEN {} ELSE {"ValidatorTokensAndPowerNonNegative"})
  \cup (IF BackedAt(ledB', ledN', poolB', poolN') THEN {} ELSE {"PoolsBackLedger"})
  \cup (IF ~BackedAt(ledB', ledN', poolB', poolN') \/ ~BackedAt(ledB, ledN, poolB, poolN) THEN {}
        ELSE IF ~e.ok THEN (IF InLockStep THEN {} ELSE {"RejectedMessageMovesNoStake"})
        ELSE IF taking THEN
               (IF (ledB' ++ ledN') \preceq Ledger /\ Take(Ledger -- (ledB' ++ ledN')) THEN {} ELSE {"TakenLeavesLedgerAndPoolsEqually"})
               \* (Dev_F29, open: once a validator has been slashed a share is worth less than a token; taking N tokens from a
               \*  delegation with it removes the shares for N and gets up to one unit less, while the records keep N.
               \*  Identity: a validator was slashed earlier in this history and the records exceed what left the ledger by
               \*  at most one unit per record entry.)
               \cup (IF (ledB' ++ ledN') \preceq Ledger /\ TakenByRecords(disp, ds) = Ledger -- (ledB' ++ ledN') THEN {}
                     ELSE {IF "F-29" \in KNOWN /\ slashed /\ (ledB' ++ ledN') \preceq Ledger
                              /\ (Ledger -- (ledB' ++ ledN')) \preceq TakenByRecords(disp, ds)
                              /\ (TakenByRecords(disp, ds) -- (Ledger -- (ledB' ++ ledN'))) \preceq N(Entries(ds))
                           THEN "KNOWN:F-29" ELSE "PerBackerRecordSumsToTaken"})
        ELSE IF returning THEN (IF PutBack(k) THEN {} ELSE {"PutBackEntersBothEqually"})
        ELSE (IF InLockStep THEN {} ELSE {"OtherOperationsKeepLockStep_" \o e.ev}))
  \cup (IF ds = disp \/ RecordsOk(ds) THEN {} ELSE {"EscrowRecordOriginsSumToTotal"})

Step ==
  /\ l <= Len(Trace)
  /\ LET e == Trace[l]
         st == e.post.stake
         reset == e.hist # hist
     IN /\ hist' = e.hist
        /\ ledB' = st.bondedtok /\ ledN' = st.notbondedtok ++ st.unbonding
        /\ poolB' = st.poolbonded /\ poolN' = st.poolnotbonded
        /\ disp' = e.post.dispute.disputes
        /\ slashed' = ((~reset /\ slashed) \/ (e.ev = "ValSlash" /\ e.ok))
        /\ viol' = IF reset THEN viol ELSE AddViol(viol, l, Check(e))
        /\ l' = l + 1
Spec == Init /\ [][Step]_tvars
Done == (l = Len(Trace) + 1) => PrintT(<<"VIOLS", ToJson(viol)>>)
Accepted == TLCGet("stats").diameter - 1 = Len(Trace)
=============================================================================
