INIT Init
NEXT Stutter
CONSTANTS
  TS = {2, 3, 5, 7, 8, 11}
  MaxLen = 4
INVARIANT Consistent
CHECK_DEADLOCK FALSE
