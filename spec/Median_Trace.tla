---------------------------- MODULE Median_Trace ----------------------------
(* C20 binding (pure part): every recorded call of the real lib.Median          *)
(* (uint64 / uint32 unsigned, int64 / int32 signed) returns the median defined   *)
(* in PriceCache.tla, computed over unbounded numbers (no overflow).             *)
EXTENDS PriceCache, Json, TLC, TraceLib
CONSTANT KNOWN
Trace == ndJsonDeserialize("trace.ndjson")
VARIABLES l, viol
tvars == <<l, viol>>
Init == l = 1 /\ viol = {}
Check(e) ==
  IF ~e.ok THEN {"MedianDefinedForNonEmptyInput"}
  ELSE IF e.signed THEN (IF SEq(SMedian(e.in), e.out) THEN {} ELSE {"SignedMedianRoundedAwayFromZero"})
  ELSE (IF Median(e.in) = e.out THEN {} ELSE {"MedianRoundedAwayFromZeroWithoutOverflow"})
Step == /\ l <= Len(Trace)
        /\ viol' = AddViol(viol, l, Check(Trace[l]))
        /\ l' = l + 1
Spec == Init /\ [][Step]_tvars
Done == (l = Len(Trace) + 1) => PrintT(<<"VIOLS", ToJson(viol)>>)
Accepted == TLCGet("stats").diameter - 1 = Len(Trace)
=============================================================================
