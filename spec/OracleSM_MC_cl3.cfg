SPECIFICATION Spec
CONSTANTS
  CL <- MC_CL3
  OtherQ = {}
  DepQ = {"d"}
  Reps = {"r1"}
  WinOf <- MC_Win
  TipAmts = {100}
  MaxH = 7
  MaxTips = 1
  MCDepWin = 3
  DepositWindow <- MCDepWin
INVARIANT Inv
PROPERTIES RotationInOrder RotationOnlyWhenClosed AggregatesAppendOnly TipStaysUntilPaid
CHECK_DEADLOCK FALSE
