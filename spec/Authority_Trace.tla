--------------------------- MODULE Authority_Trace ---------------------------
(* C19 binding over recorded histories (projections hold, config): every        *)
(* message type, signed by every kind of account (users, validator operators,    *)
(* team, governance authority, and non-authority signers for the privileged      *)
(* ones).                                                                         *)
EXTENDS Authority, Json, TLC, TraceLib
CONSTANT KNOWN
Trace == ndJsonDeserialize("trace.ndjson")
VARIABLES l, viol, hist, hold, cfg
tvars == <<l, viol, hist, hold, cfg>>
Init == l = 1 /\ viol = {} /\ hist = 0 /\ hold = <<>> /\ cfg = <<>>
Automatic == {"BeginBlock", "EndBlock", "ValJail", "ValUnjail"}

Check(e) ==
  LET h2 == e.post.hold
      c2 == e.post.config
  IN
  IF e.ev \in Automatic THEN {}
  ELSE IF e.ev \in Privileged THEN
     (IF e.ok /\ ~AuthorityOk(e.ev, e.who, cfg.team) THEN {"PrivilegedChangeNeedsAuthority_" \o e.ev} ELSE {})
     \cup (IF ~e.ok /\ c2 # cfg THEN {"RejectedPrivilegedMessageChangesNothing"} ELSE {})
     \cup (IF \A a \in DOMAIN hold : a \in DOMAIN h2 /\ Untouched(hold[a], h2[a]) THEN {} ELSE {"PrivilegedMessageTouchesNoHoldings"})
  ELSE
     (IF c2 = cfg \/ (e.ev = "RegisterSpec" /\ e.ok) THEN {} ELSE {"OnlyPrivilegedMessagesChangeConfiguration_" \o e.ev})
     \cup (IF e.ev = "RegisterSpec" /\ e.ok
           THEN (IF e.qtype \notin DOMAIN cfg.specs /\ (\A t \in DOMAIN cfg.specs : t \in DOMAIN c2.specs /\ c2.specs[t] = cfg.specs[t])
                    /\ [x \in (DOMAIN c2) \ {"specs"} |-> c2[x]] = [x \in (DOMAIN cfg) \ {"specs"} |-> cfg[x]]
                 THEN {} ELSE {"RegisteredSpecsCannotBeReplaced"})
           ELSE {})
     \cup (IF \A a \in (DOMAIN hold) \ MayTouch(e.ev, e, hold) : a \in DOMAIN h2 /\ Untouched(hold[a], h2[a])
           THEN {} ELSE {"OnlySignersAssetsReduced_" \o e.ev})
     \* a refund may be collected for a payer by anyone - but it is the payer's: a caller other than the payer ends the
     \* message with the balance it had (the payer's entitlement is not turned into the caller's coins)
     \cup (IF e.ev = "WithdrawFeeRefund" /\ e.ok /\ e.who # e.payer /\ e.who \in DOMAIN hold /\ e.who \in DOMAIN h2 /\ hold[e.who].bal \prec h2[e.who].bal
           THEN {"RefundGoesToThePayerNotTheCaller"} ELSE {})

Step ==
  /\ l <= Len(Trace)
  /\ LET e == Trace[l]
         reset == e.hist # hist
     IN /\ hist' = e.hist
        /\ hold' = e.post.hold /\ cfg' = e.post.config
        /\ viol' = IF reset THEN viol ELSE AddViol(viol, l, Check(e))
        /\ l' = l + 1
Spec == Init /\ [][Step]_tvars
Done == (l = Len(Trace) + 1) => PrintT(<<"VIOLS", ToJson(viol)>>)
Accepted == TLCGet("stats").diameter - 1 = Len(Trace)
=============================================================================
