SPECIFICATION Spec
CONSTANTS
  CL <- MC_CL1
  OtherQ = {"b"}
  DepQ = {"d"}
  Reps = {"r1"}
  WinOf <- MC_Win
  TipAmts = {100}
  MaxH = 7
  MaxTips = 2
  MCDepWin = 3
  DepositWindow <- MCDepWin
INVARIANT Inv
PROPERTIES RotationInOrder RotationOnlyWhenClosed AggregatesAppendOnly TipStaysUntilPaid
CHECK_DEADLOCK FALSE
