----------------------------- MODULE Determinism -----------------------------
(* C01: block execution is deterministic across runs and nodes.                *)
(* Determinism is a 2-safety property: it relates executions, so it is stated   *)
(* over K replicas fed the same ordered blocks and transactions from the same    *)
(* genesis.  obs[k] is replica k's observation of the current block:             *)
(*   [apphash (digest over every store key/value after commit), evhash (digest   *)
(*    over the emitted events), aggs (aggregates created: query, value, power,   *)
(*    reporter), ok (end-block result), h (height)]                              *)
EXTENDS Integers, Sequences, FiniteSets
Agree(o1, o2) == o1 = o2
AllAgree(obs) == \A j, k \in DOMAIN obs : Agree(obs[j], obs[k])
=============================================================================
