------------------------------- MODULE Chain -------------------------------
(* Block lifecycle of the application (app/app.go): every block is            *)
(*   BeginBlock (pre-block + begin-block of all modules, production order)     *)
(*   message*   (each atomic: applied fully or rejected without effect)        *)
(*   EndBlock   (end-block of all modules, then commit)                        *)
(* C02: the automatic phases have NO failing branch. A message may be          *)
(* rejected (ok = FALSE) - that is the worst outcome for its sender - but       *)
(* BeginBlock/EndBlock always complete, so `halted` stays FALSE forever.        *)
EXTENDS Num, Integers, Sequences, FiniteSets

VARIABLES phase,    \* "idle" (between blocks) or "open" (inside a block)
          height,   \* height of the last started block
          now,      \* block time of the last started block (ns, Num)
          halted    \* TRUE once an automatic phase failed: no further block can be produced

cvars == <<phase, height, now, halted>>

MinGap == Pow10(6)  \* the consensus engine's minimum block-time increment: 1 ms, in nanoseconds

ChainInit(h0, t0) == phase = "idle" /\ height = h0 /\ now = t0 /\ halted = FALSE

\* the automatic phase at the start of a block: always completes
BeginBlock(dt) ==
  /\ phase = "idle" /\ ~halted
  /\ dt \succeq MinGap
  /\ phase' = "open" /\ height' = height + 1 /\ now' = now ++ dt
  /\ halted' = FALSE

\* a user message: accepted or rejected, never affects the ability to produce blocks
Message == phase = "open" /\ ~halted /\ UNCHANGED cvars

\* the automatic phase at the end of a block: always completes
EndBlock ==
  /\ phase = "open" /\ ~halted
  /\ phase' = "idle" /\ UNCHANGED <<height, now>>
  /\ halted' = FALSE

\* what the property forbids: an automatic phase that fails (only used to NAME the deviation)
PhaseFails == ~halted /\ halted' = TRUE /\ UNCHANGED <<phase, height, now>>

NeverHalts == ~halted
=============================================================================
