------------------------------- MODULE Stake -------------------------------
(* C05: the staked-token ledger (validator tokens + unbonding entries) is      *)
(* always backed by the two staking pools.  The SDK staking module is observed, *)
(* not re-modelled: its own operations keep pools and ledger in lock-step.      *)
(* The Tellor paths are the interesting ones:                                   *)
(*   Take    - dispute escrow / fee paid from stake: leaves ledger and pools by *)
(*             the same amount; the per-backer record sums to that amount       *)
(*   PutBack - returned stake, refunds, rewards, withdrawn tips: enter both by  *)
(*             the same amount, except <= 1 smallest unit per returned entry    *)
(*             that stays in the pool                                           *)
EXTENDS Num, Integers, Sequences, FiniteSets

VARIABLES ledB,   \* tokens recorded by bonded validators
          ledN,   \* tokens recorded by non-bonded validators + unbonding entries
          poolB,  \* balance of the bonded pool
          poolN   \* balance of the not-bonded pool
svars == <<ledB, ledN, poolB, poolN>>

Ledger == ledB ++ ledN
Pools == poolB ++ poolN
Backed == ledB \preceq poolB /\ ledN \preceq poolN
BackedAt(lb, ln, pb, pn) == lb \preceq pb /\ ln \preceq pn
SlackAt(lb, ln, pb, pn) == (pb ++ pn) -- (lb ++ ln)       \* only used when BackedAt holds

(* SDK-native operation or any operation that does not touch stake: pools and    *)
(* ledger move together (delegate, undelegate, redelegate, unbonding maturity,    *)
(* validator status changes, everything non-staking).                             *)
InLockStep == /\ BackedAt(ledB', ledN', poolB', poolN')
              /\ SlackAt(ledB', ledN', poolB', poolN') = SlackAt(ledB, ledN, poolB, poolN)

(* stake taken: both sides lose exactly `amt` *)
Take(amt) == /\ BackedAt(ledB', ledN', poolB', poolN')
             /\ (ledB' ++ ledN') ++ amt = Ledger
             /\ (poolB' ++ poolN') ++ amt = Pools

(* stake / rewards put back through at most k entries: ledger gains what the pools *)
(* gain, minus at most one smallest unit per entry                                 *)
PutBack(k) == /\ BackedAt(ledB', ledN', poolB', poolN')
              /\ LET s0 == SlackAt(ledB, ledN, poolB, poolN)
                     s1 == SlackAt(ledB', ledN', poolB', poolN')
                 IN s0 \preceq s1 /\ s1 \preceq (s0 ++ N(k))

(* a per-backer record [total, origins] is self-consistent *)
RecordSums(rec) == /\ ~rec.total.neg
                   /\ \A i \in DOMAIN rec.origins : ~rec.origins[i].amt.neg
                   /\ NSumSeq([i \in DOMAIN rec.origins |-> rec.origins[i].amt.mag]) = rec.total.mag
=============================================================================
