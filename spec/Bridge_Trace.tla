---------------------------- MODULE Bridge_Trace ----------------------------
(* C14 binding over recorded histories (projections bank, bridge, aggs).       *)
EXTENDS BridgeSM, Json, TLC, TraceLib
CONSTANT KNOWN
Trace == ndJsonDeserialize("trace.ndjson")
VARIABLES l, viol, hist, claimed, wid, cps, bank, aggs
tvars == <<l, viol, hist, claimed, wid, cps, bank, aggs>>
Range(s) == { s[i] : i \in DOMAIN s }
Init == l = 1 /\ viol = {} /\ hist = 0 /\ claimed = {} /\ wid = 0 /\ cps = <<>> /\ bank = <<>> /\ aggs = <<>>
IsWd(q) == Len(q) > 2 /\ SubSeq(q, 1, 2) = "wd"
Count(a, q) == IF q \in DOMAIN a THEN Len(a[q]) ELSE 0

\* balance bookkeeping of a successful claim: claimer gets the tips, each recipient the rest
Gain(e, who) ==
  LET cs == e.claims
      asClaimer == IF who = e.who THEN NSumSeq([i \in DOMAIN cs |-> TipPart(cs[i])]) ELSE Zero
      asRcpt == NSumSeq([i \in DOMAIN cs |-> IF cs[i].dec.rcpt = who THEN Minted(cs[i]) -- TipPart(cs[i]) ELSE Zero])
  IN asClaimer ++ asRcpt

CheckClaim(e, b2) ==
  LET g == Len(e.claims) > 0 /\ Len(e.ids) = Len(e.idx) /\ BatchOk(e.claims, claimed, cps, e.t)
      post == e.post.bridge
  IN
  (IF e.ok /\ ~g THEN {"DepositClaimedOnlyWhenAllConditionsHold"} ELSE {})
  \cup (IF ~e.ok /\ g THEN {"ClaimableDepositIsPaid"} ELSE {})
  \cup (IF e.ok
        THEN (IF Range(post.claimed) = claimed \cup { e.claims[i].id : i \in DOMAIN e.claims } THEN {} ELSE {"ClaimedIdsRecorded"})
             \cup (IF b2.supply = bank.supply ++ NSumSeq([i \in DOMAIN e.claims |-> Minted(e.claims[i])]) THEN {} ELSE {"MintsExactlyReportedAmountDiv10e12"})
             \cup (IF \A a \in DOMAIN bank.bal : b2.bal[a] = bank.bal[a] ++ Gain(e, a) THEN {} ELSE {"TipToClaimerRestToRecipient"})
        ELSE (IF Range(post.claimed) = claimed /\ b2 = bank THEN {} ELSE {"RejectedClaimChangesNothing"}))

CheckWithdraw(e, b2, a2) ==
  LET post == e.post.bridge IN
  IF ~e.ok THEN (IF post.wid = wid /\ b2 = bank /\ a2 = aggs THEN {} ELSE {"RejectedWithdrawalChangesNothing"})
  ELSE (IF post.wid = wid + 1 THEN {} ELSE {"WithdrawalIdsStrictlyIncrease"})
       \cup (IF bank.supply = b2.supply ++ e.amt /\ bank.bal[e.who] = b2.bal[e.who] ++ e.amt THEN {} ELSE {"BurnsExactlyTheRequestedAmountFromSender"})
       \cup (IF e.pub.found /\ e.pub.id = wid + 1 /\ e.pub.amount = e.amt /\ e.pub.sender = e.whoaddr /\ IsZero(e.pub.tip) /\ e.pub.nreporters = 0
                /\ (e.rcptnorm = "toolong" \/ e.pub.rcpt = e.rcptnorm)
             THEN {} ELSE {"PublishedAggregateEncodesRecipientSenderAmount"})

\* aggregates under withdrawal queries only ever appear through WithdrawTokens
CheckWdAggs(e, a2) ==
  IF e.ev = "WithdrawTokens" THEN {}
  ELSE IF \A q \in DOMAIN a2 : IsWd(q) => Count(a2, q) = Count(aggs, q) THEN {} ELSE {"NoReporterInfluencesWithdrawalAggregates"}

\* conformance with the constructive model (BridgeSM): the real post-state is what ClaimNext / WithdrawNext compute from
\* the real pre-state, and the message is accepted exactly when the model enables it (drift, not a verdict)
ModelPre == [claimed |-> claimed, supply |-> bank.supply, bal |-> bank.bal, wid |-> wid, pub |-> {}]
CheckModel(e, b2) ==
  IF e.ev = "ClaimDeposits" THEN
    LET en == Len(e.ids) = Len(e.idx) /\ ClaimOk(ModelPre, cps, e.t, e.claims) IN
    (IF e.ok = en THEN {} ELSE {"MODEL:ClaimDepositsEnabled"})
    \cup (IF e.ok /\ en
          THEN LET m == ClaimNext(ModelPre, e.who, e.claims) IN
               IF m.claimed = Range(e.post.bridge.claimed) /\ m.supply = b2.supply /\ m.bal = b2.bal THEN {} ELSE {"MODEL:ClaimNext"}
          ELSE {})
  ELSE IF e.ev = "WithdrawTokens" /\ e.ok /\ e.who \in DOMAIN bank.bal THEN
    LET m == WithdrawNext(ModelPre, e.who, e.rcptnorm, e.amt) IN
    IF WithdrawOk(ModelPre, e.who, e.amt) /\ m.wid = e.post.bridge.wid /\ m.supply = b2.supply /\ m.bal = b2.bal THEN {} ELSE {"MODEL:WithdrawNext"}
  ELSE {}

Check(e) ==
  LET b2 == e.post.bank a2 == e.post.aggs IN
  CheckModel(e, b2) \cup
  (IF e.ev = "ClaimDeposits" THEN CheckClaim(e, b2)
   ELSE IF e.ev = "WithdrawTokens" THEN CheckWithdraw(e, b2, a2)
   ELSE (IF Range(e.post.bridge.claimed) = claimed /\ e.post.bridge.wid = wid THEN {} ELSE {"OnlyBridgeMessagesChangeBridgeState_" \o e.ev}))
  \cup CheckWdAggs(e, a2)
  \cup (IF e.ev = "SubmitValue" /\ e.kind = "withdrawal" /\ e.ok THEN {"WithdrawalQueriesAreNeverReportable"} ELSE {})

Step ==
  /\ l <= Len(Trace)
  /\ LET e == Trace[l]
         reset == e.hist # hist
     IN /\ hist' = e.hist
        /\ claimed' = Range(e.post.bridge.claimed) /\ wid' = e.post.bridge.wid /\ cps' = e.post.bridge.cps
        /\ bank' = e.post.bank /\ aggs' = e.post.aggs
        /\ viol' = IF reset THEN viol ELSE AddViol(viol, l, Check(e))
        /\ l' = l + 1
Spec == Init /\ [][Step]_tvars
Done == (l = Len(Trace) + 1) => PrintT(<<"VIOLS", ToJson(viol)>>)
Accepted == TLCGet("stats").diameter - 1 = Len(Trace)
=============================================================================
