---------------------------- MODULE OracleSM_Sim ----------------------------
(* Behaviours of the round life-cycle model as test sequences: the actions of  *)
(* OracleSM_MC with a history variable; under `tlc -simulate` every behaviour   *)
(* of the given depth is printed as one JSON array of actions.  Each action was *)
(* ENABLED in the model when taken, so the real chain - started in the matching *)
(* state - must accept every one of them, and the round table it shows after    *)
(* each step must be the one the model computes (Oracle_Trace, MODEL clauses).  *)
EXTENDS OracleSM_MC, Json
CONSTANT D
VARIABLES hist, nmsg, np
svars == <<vars, hist, nmsg, np>>
MaxMsgs == 3   \* messages per block in generated behaviours (keeps blocks short so that many rounds close)
\* the state the real chain is in right after an end-block rotated onto the first cycle-list query
SimInit ==
  /\ h = 1 /\ reps = {} /\ idx = 0 /\ aggcount = <<>> /\ aggh = <<>> /\ tin = 0 /\ paid = 0 /\ ntips = 0 /\ sinceRot = 0
  /\ qs = {NewRound(CL[1], 1, Zero, WinOf[CL[1]], TRUE, FALSE, WinOf[CL[1]])}
  /\ nextId = 2
  /\ hist = <<>> /\ nmsg = 0 /\ np = 0
\* reports the model has DISABLED (window closed, nothing scheduled or tipped) are replayed too, at most MaxProbes per
\* behaviour: the model's table does not change and the real chain must reject them
MaxProbes == 6
SimNext ==
  \/ np' = np /\ nmsg < MaxMsgs /\ nmsg' = nmsg + 1 /\ \E q \in AllQ, a \in TipAmts : Tip(q, a) /\ hist' = Append(hist, [op |-> "Tip", q |-> q, amt |-> a, en |-> TRUE])
  \/ np' = np /\ nmsg < MaxMsgs /\ nmsg' = nmsg + 1 /\ \E r \in Reps, q \in AllQ : Submit(r, q) /\ hist' = Append(hist, [op |-> "Submit", q |-> q, who |-> r, en |-> TRUE])
  \/ np' = np /\ EndBlock /\ nmsg' = 0 /\ hist' = Append(hist, [op |-> "End"])
  \/ np < MaxProbes /\ np' = np + 1 /\ nmsg' = nmsg /\ UNCHANGED vars
     /\ \E r \in Reps, q \in AllQ \ DepQ : ~Admit(qs, q, "normal", h, TRUE) /\ hist' = Append(hist, [op |-> "Submit", q |-> q, who |-> r, en |-> FALSE])
SimSpec == SimInit /\ [][SimNext]_svars
Emit == Len(hist) # D \/ PrintT(<<"CASE", ToJson(hist)>>)
MC_WinSim == [a |-> 2, b |-> 2, c |-> 2, x |-> 2, d |-> 2000]
MC_CLSim == <<"a", "b", "c">>
=============================================================================
