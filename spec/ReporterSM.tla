------------------------------ MODULE ReporterSM ------------------------------
(* Who reports with whose stake, as a constructive state machine over the       *)
(* selection table of x/reporter (msg_server.go CreateReporter / SelectReporter *)
(* / SwitchReporter / RemoveSelector) and the moments at which reports count    *)
(* stake (reporter.go ReporterStake).                                           *)
(*   sel      : selector -> [rep, locked]   (locked: time until which the       *)
(*              selector's stake is not counted)                                 *)
(*   reported : reporters that have had a report accepted                        *)
(* Amounts are left out (C10's power equation is Reporter.tla's subject); what   *)
(* this model decides is the consequence C10 states: the same stake never        *)
(* serves two reporters within one unbonding period.                             *)
EXTENDS Num, Integers, Sequences, FiniteSets

NoLock == Zero
Put(sel, s, v) == [x \in (DOMAIN sel) \cup {s} |-> IF x = s THEN v ELSE sel[x]]
Drop(sel, s) == [x \in (DOMAIN sel) \ {s} |-> sel[x]]
SelsOf(sel, r) == { s \in DOMAIN sel : sel[s].rep = r }
IsReporter(sel, r) == r \in DOMAIN sel /\ sel[r].rep = r

CreateOk(sel, a) == a \notin DOMAIN sel
CreateNext(sel, a) == Put(sel, a, [rep |-> a, locked |-> NoLock])
SelectOk(sel, s, r, cap) == s \notin DOMAIN sel /\ IsReporter(sel, r) /\ Cardinality(SelsOf(sel, r)) < cap
SelectNext(sel, s, r) == Put(sel, s, [rep |-> r, locked |-> NoLock])
SwitchOk(sel, s, r, cap) == s \in DOMAIN sel /\ sel[s].rep # s /\ IsReporter(sel, r) /\ Cardinality(SelsOf(sel, r)) < cap
\* the lock is (re)started when the reporter left behind has ever reported; otherwise a running lock stays as it is
SwitchNext(sel, reported, s, r, now, unbond) ==
  Put(sel, s, [rep |-> r, locked |-> IF sel[s].rep \in reported THEN now ++ unbond ELSE sel[s].locked])
\* anyone may remove a selector that no longer meets its reporter's minimum while the reporter is over the cap
RemoveOk(sel, s, belowMin, cap) == s \in DOMAIN sel /\ sel[s].rep # s /\ belowMin /\ Cardinality(SelsOf(sel, sel[s].rep)) > cap
RemoveNext(sel, s) == Drop(sel, s)
\* the selectors whose stake a report of r made now is counted from
CountedFor(sel, r, now) == { s \in SelsOf(sel, r) : sel[s].locked \preceq now }
=============================================================================
