----------------------------- MODULE Tally_Trace -----------------------------
(* C12 (tally) binding: every enumerated vote distribution is installed in a   *)
(* real dispute keeper (vote counts, block info totals, team vote, voting        *)
(* period over or not) and the real TallyVote is run; the recorded result must   *)
(* equal TallyResult, and a result must exist for every distribution once the    *)
(* voting period is over (totality).                                             *)
EXTENDS Dispute, Json, TLC, TraceLib
CONSTANT KNOWN
Trace == ndJsonDeserialize("trace.ndjson")
VARIABLES l, viol
tvars == <<l, viol>>
Init == l = 1 /\ viol = {}
Check(e) ==
  LET exp == IF e.ended /\ NoVotes(e.cn) THEN {6} ELSE TallyResults(e.cn, e.tot, e.ended) IN
  (IF e.ended /\ ~e.ok THEN {"ResultDecidedForEveryDistribution"} ELSE {})
  \cup (IF exp = {0} THEN (IF e.ok THEN {"NoResultBeforeQuorumOrEndOfVoting"} ELSE {})
        ELSE (IF e.ok /\ e.result \in exp THEN {} ELSE IF e.ok THEN {"ResultEqualsSpecifiedFormula"} ELSE {}))
  \cup (IF exp # {0} /\ ~e.ended /\ ~e.ok THEN {"QuorumDecidesImmediately"} ELSE {})
Step == /\ l <= Len(Trace)
        /\ viol' = AddViol(viol, l, Check(Trace[l]))
        /\ l' = l + 1
Spec == Init /\ [][Step]_tvars
Done == (l = Len(Trace) + 1) => PrintT(<<"VIOLS", ToJson(viol)>>)
Accepted == TLCGet("stats").diameter - 1 = Len(Trace)
=============================================================================
