------------------------------ MODULE Tally_MC ------------------------------
(* C12 (tally), design level: enumerates vote distributions (group totals,     *)
(* cast votes per choice for users / reporters / holders, team choice, voting   *)
(* period over or not) including equal opposing weights and zero totals; checks  *)
(* that TallyResult is total (a result for every distribution once the period    *)
(* is over) and consistent, and prints each case for replay into the real        *)
(* TallyVote.                                                                    *)
EXTENDS Dispute, TLC, Json
CONSTANTS W, Totals, Supply
VARIABLE c
Triples == { t \in [1 .. 3 -> W] : TRUE }
Teams == { <<0, 0, 0>>, <<1, 0, 0>>, <<0, 1, 0>>, <<0, 0, 1>> }
Init == \E u \in Triples, r \in Triples, h \in Triples, t \in Teams, tu \in Totals, tr \in Totals, ended \in BOOLEAN :
          /\ Sum3(u) <= tu /\ Sum3(r) <= tr
          /\ c = [cn |-> [users |-> u, reporters |-> r, holders |-> h, team |-> t], tot |-> [users |-> tu, reporters |-> tr, supply |-> Supply], ended |-> ended]
Next == UNCHANGED c
\* (TallyResult needs 10^18 fixed point, beyond TLC's native integers: it is evaluated for every emitted case by
\*  Tally_Trace under the big-number backend, which also checks totality: a result for every distribution)
Emit == PrintT(<<"CASE", ToJson(c)>>)
=============================================================================
