-------------------------- MODULE Dispute_Life_Trace --------------------------
(* C12 binding over recorded histories (projections dispute, bank).            *)
EXTENDS DisputeSM, Json, TLC, TraceLib
CONSTANT KNOWN
Trace == ndJsonDeserialize("trace.ndjson")
VARIABLES l, viol, hist, disp, voters, supply,
          edges,     \* inferred: status transitions <<id, from, to>> already taken
          selVoted,  \* inferred: <<id, reporter>> -> stake of that reporter's selectors who voted before it
          userW      \* inferred: <<id, voter>> -> tips weight the voter had at the dispute's block (observed when it voted)
tvars == <<l, viol, hist, disp, voters, supply, edges, selVoted, userW>>
Init == l = 1 /\ viol = {} /\ hist = 0 /\ disp = <<>> /\ voters = <<>> /\ supply = Zero /\ edges = {} /\ selVoted = <<>> /\ userW = <<>>

ById(ds, id) == CHOOSE d \in Range(ds) : d.id = id
Has(ds, id) == \E d \in Range(ds) : d.id = id
VotersOf(vs, id) == { v \in Range(vs) : v.id = id }
HasVoted(vs, id, who) == \E v \in VotersOf(vs, id) : v.who = who
VoterRec(vs, id, who) == CHOOSE v \in VotersOf(vs, id) : v.who = who
ResultOf(d) == IF "vote" \in DOMAIN d THEN d.vote.result ELSE 0
TeamPower == N(25000000)
Idx(choice) == IF choice = 1 THEN 1 ELSE IF choice = 2 THEN 2 ELSE 3
Zero3 == <<Zero, Zero, Zero>>
CountsOf(d) == IF "counts" \in DOMAIN d THEN d.counts ELSE [users |-> Zero3, reporters |-> Zero3, holders |-> Zero3, team |-> Zero3]
Pos(x) == IF x.neg THEN Zero ELSE x.mag
Two63 == Pow10(18) ** N(9)     \* ~ 2^63: a counter at or above this has wrapped below zero

CheckStatus(e, post) ==
  (IF \A d \in Range(post) : Has(disp, d.id) => StatusStep(ById(disp, d.id).status, d.status) THEN {} ELSE {"StatusMovesOnlyForward"})
  \cup (IF \A d \in Range(post) : (Has(disp, d.id) /\ ById(disp, d.id).status # d.status) => <<d.id, ById(disp, d.id).status, d.status>> \notin edges
        THEN {} ELSE {"NoTransitionTwice"})
  \cup (IF \A d \in Range(post) : (Has(disp, d.id) /\ ById(disp, d.id).status = PREVOTE /\ d.status = VOTING) => (d.feetotal = d.slash /\ e.ev \in {"ProposeDispute", "AddFeeToDispute"})
        THEN {} ELSE {"VotingStartsOnlyWhenFullyFunded"})
  \cup (IF \A d \in Range(post) : (Has(disp, d.id) /\ ById(disp, d.id).status = PREVOTE /\ d.status = FAILED) => (e.ev = "BeginBlock" /\ ById(disp, d.id).endn \prec e.tn)
        THEN {} ELSE {"FailsOnlyAfterTheFundingDeadline"})
  \cup (IF \A d \in Range(post) : (d.status \in {RESOLVED, UNRESOLVED} /\ Has(disp, d.id) /\ ById(disp, d.id).status = VOTING) => ResultOf(d) # 0
        THEN {} ELSE {"LeavesVotingOnlyWithATally"})
  \* a round that has been superseded by a further round is history: it is closed when the new round opens and neither
  \* its status nor its vote changes again (the unresolved -> new round transition is not followed by a second way out)
  \cup (IF \A d \in Range(post) :
           (Has(disp, d.id) /\ \E x \in Range(disp) : x.hash = d.hash /\ x.id > d.id)
             => LET p == ById(disp, d.id) IN
                d.status = p.status /\ ~d.open /\ (("vote" \in DOMAIN d /\ "vote" \in DOMAIN p) => d.vote.executed = p.vote.executed)
        THEN {} ELSE {"SupersededRoundIsClosedForGood"})

\* the 1-, 2- and 3-day deadlines: a dispute waiting for its fee ends one day after it was opened; once voting starts the
\* vote lasts two days and the dispute (room for further rounds) three days from that moment
CheckDeadlines(post) ==
  IF \A d \in Range(post) :
        /\ (d.status = PREVOTE => d.endn = d.startn ++ DayNs)
        /\ ((d.status = VOTING /\ "vote" \in DOMAIN d) => (d.vote.endn = d.vote.startn ++ (N(2) ** DayNs) /\ d.endn = d.vote.startn ++ (N(3) ** DayNs)))
  THEN {} ELSE {"DeadlinesAreOneTwoAndThreeDays"}

CheckNew(e, post) ==
  LET new == { d \in Range(post) : ~Has(disp, d.id) } IN
  (IF \A d \in new : \A p \in Range(disp) : p.id < d.id THEN {} ELSE {"DisputeIdsIncrease"})
  \cup (IF \A d \in new : d.round = 1 => d.status \in {PREVOTE, VOTING} THEN {} ELSE {"NewDisputeStartsInPrevoteOrVoting"})
  \cup (IF \A d \in new : d.round > 1 =>
            \E p \in Range(disp) : /\ p.hash = d.hash /\ p.round = d.round - 1 /\ p.status = UNRESOLVED
                                   /\ d.status = VOTING
                                   /\ d.feetotal = p.feetotal ++ RoundFee(p.slash, p.round)
                                   /\ Has(post, p.id) /\ ~ById(post, p.id).open
        THEN {} ELSE {"NewRoundOnlyFromUnresolvedWithDoubledFee"})

CheckVote(e, post, pv) ==
  LET ok == e.ok
      d == IF Has(disp, e.id) THEN ById(disp, e.id) ELSE [status |-> -1]
      guard == Has(disp, e.id) /\ d.status = VOTING /\ ~HasVoted(voters, e.id, e.who) /\ "vote" \in DOMAIN d /\ d.vote.endn \succeq e.tn
  IN
  (IF ok /\ ~guard THEN {"VoteOnlyOncePerRoundWhileVotingIsOpen"} ELSE {})
  \cup (IF ~ok THEN {}
        ELSE LET v == VoterRec(pv, e.id, e.who)
                 team == IF e.isteam THEN TeamPower ELSE Zero
                 before == IF <<e.id, e.who>> \in DOMAIN selVoted THEN selVoted[<<e.id, e.who>>] ELSE Zero
                 rp == IF e.isrep THEN Monus(e.reptok, before) ELSE IF e.issel THEN e.seltok ELSE Zero
                 hp == e.bal ++ e.seltok
             IN (IF Pos(v.rpower) = rp /\ ~v.rpower.neg THEN {} ELSE {"ReportingStakeAsOfDisputeBlockCountedOnce"})
                \cup (IF Pos(v.hpower) = hp THEN {} ELSE {"TokenWeightIsLiquidBalancePlusStake"})
                \cup (IF Pos(v.power) = ((team ++ e.usertips) ++ rp) ++ hp THEN {} ELSE {"VoterPowerIsSumOfGroupWeights"})
                \cup (IF v.choice = e.choice THEN {} ELSE {"ChoiceRecorded"})
                \cup (IF e.issel /\ ~e.isrep /\ HasVoted(voters, e.id, e.selrep)
                      THEN (IF HasVoted(pv, e.id, e.selrep) /\ Pos(VoterRec(pv, e.id, e.selrep).rpower) = Monus(Pos(VoterRec(voters, e.id, e.selrep).rpower), e.seltok)
                                /\ ~VoterRec(pv, e.id, e.selrep).rpower.neg
                            THEN {} ELSE {"SelectorsVoteRemovedFromItsReporter"})
                      ELSE {}))

\* counters of every dispute equal the sums over its voter records, and none has wrapped below zero
CheckCounts(post, pv, teamName, uw) ==
  LET bad == { d \in Range(post) :
                 "counts" \in DOMAIN d /\
                 LET V == VotersOf(pv, d.id)
                     sumBy(f(_), c) == LET S == { v \in V : Idx(v.choice) = c } IN NSum([v \in S |-> f(v)], S)
                     userOf(v) == IF <<v.id, v.who>> \in DOMAIN uw THEN uw[<<v.id, v.who>>] ELSE Zero
                 IN ~(\A c \in 1 .. 3 : /\ d.counts.reporters[c] = sumBy(LAMBDA v : Pos(v.rpower), c)
                                        /\ d.counts.holders[c] = sumBy(LAMBDA v : Pos(v.hpower), c)
                                        /\ d.counts.users[c] = sumBy(userOf, c)) }
      wrapped == { d \in Range(post) : "counts" \in DOMAIN d /\ \E g \in {"users", "reporters", "holders"} : \E c \in 1 .. 3 : Two63 \preceq d.counts[g][c] }
  IN (IF bad = {} THEN {} ELSE {"GroupCountersEqualSumOfVoterWeights"})
     \cup (IF wrapped = {} THEN {} ELSE {"NoCounterBelowZero"})

CheckTally(e, post, sup2) ==
  LET decided == { d \in Range(post) : ResultOf(d) # 0 /\ (~Has(disp, d.id) \/ ResultOf(ById(disp, d.id)) = 0) }
      expOf(d, s) ==
        LET p == IF Has(disp, d.id) THEN ById(disp, d.id) ELSE d
            bi == IF "blockinfo" \in DOMAIN p THEN p.blockinfo ELSE IF "blockinfo" \in DOMAIN d THEN d.blockinfo ELSE [reppower |-> Zero, tips |-> Zero]
            cn == CountsOf(d)
            ended == "vote" \in DOMAIN p /\ p.vote.endn \prec e.tn
        IN IF ended /\ NoVotes(cn) THEN {6} ELSE TallyResults(cn, [users |-> bi.tips, reporters |-> bi.reppower, supply |-> s], ended)
  IN (IF \A d \in decided : ResultOf(d) \in (expOf(d, supply) \cup expOf(d, sup2)) THEN {} ELSE {"RecordedResultEqualsFormula"})
     \cup (IF e.ev = "BeginBlock" /\ e.ok
           THEN (IF \A p \in Range(disp) : (p.status = VOTING /\ "vote" \in DOMAIN p /\ p.vote.result = 0 /\ p.vote.endn \prec e.tn) => (Has(post, p.id) /\ ResultOf(ById(post, p.id)) # 0)
                 THEN {} ELSE {"DecidedWhenVotingPeriodEnds"})
           ELSE {})

\* ---- conformance with the constructive life-cycle model (DisputeSM): the dispute table after the step, seen through
\* the model's fields, is the one the model computes from the table before it and the call's arguments (the tally's
\* outcome is read off the result; whether it is admissible is CheckTally's subject).  Mismatch = MODEL:<step>, drift.
V(d) == [id |-> d.id, hash |-> d.hash, status |-> d.status, round |-> d.round, slash |-> d.slash, burn |-> d.burn, feetotal |-> d.feetotal,
         startn |-> d.startn, endn |-> d.endn, open |-> d.open, pending |-> d.pending, prev |-> d.prev,
         vote |-> IF "vote" \in DOMAIN d THEN [has |-> TRUE, startn |-> d.vote.startn, endn |-> d.vote.endn, result |-> d.vote.result, executed |-> d.vote.executed] ELSE NoVote]
SMV(ds) == { V(d) : d \in Range(ds) }
Swap(S, old, new) == (S \ {old}) \cup {new}
SMCheck(e, post) ==
  LET pre == SMV(disp)
      pst == SMV(post)
      now == e.tn
  IN
  IF e.ev = "ProposeDispute" THEN
     (IF ~e.ok THEN (IF pst = pre THEN {} ELSE {"MODEL:ProposeRejected"})
      ELSE IF pst = {} THEN {"MODEL:Propose"}
      ELSE LET n == CHOOSE d \in pst : \A x \in pst : x.id <= d.id IN
           (IF pst = ProposeNext(pre, now, n.id, n.hash, SlashAmount(e.cat, e.rpower), e.fee) THEN {} ELSE {"MODEL:Propose"})
           \cup (IF ProposeOk(pre, now, n.hash, e.fee) THEN {} ELSE {"MODEL:ProposeGuard"}))
  ELSE IF e.ev = "AddFeeToDispute" THEN
     (IF ~e.ok THEN (IF pst = pre THEN {} ELSE {"MODEL:AddFeeRejected"})
      ELSE IF ~HasId(pre, e.id) THEN {"MODEL:AddFee"}
      ELSE LET d == IdOf(pre, e.id) IN
           (IF pst = Swap(pre, d, AddFeeNext(d, now, e.amt)) THEN {} ELSE {"MODEL:AddFee"})
           \cup (IF AddFeeOk(d, now, e.amt) THEN {} ELSE {"MODEL:AddFeeGuard"}))
  ELSE IF e.ev = "Vote" THEN
     (IF ~e.ok THEN (IF pst = pre THEN {} ELSE {"MODEL:VoteRejected"})
      ELSE IF ~HasId(pre, e.id) \/ ~HasId(pst, e.id) THEN {"MODEL:Vote"}
      ELSE LET d == IdOf(pre, e.id) IN
           (IF pst = Swap(pre, d, VoteNext(d, now, IdOf(pst, e.id).vote.result)) /\ IdOf(pst, e.id).vote.result \in 0 .. 3 THEN {} ELSE {"MODEL:Vote"})
           \cup (IF VoteOk(d, now) THEN {} ELSE {"MODEL:VoteGuard"}))
  ELSE IF e.ev = "BeginBlock" THEN
     (IF ~e.ok THEN {}
      ELSE LET r == BeginNext(pre, now, LAMBDA d : IF HasId(pst, d.id) THEN IdOf(pst, d.id).vote.result ELSE 0) IN
           (IF pst = r.ds THEN {} ELSE {"MODEL:BeginBlock"}) \cup (IF r.fails THEN {"MODEL:BeginBlockShouldHaveFailed"} ELSE {}))
  ELSE (IF pst = pre THEN {} ELSE {"MODEL:Other_" \o e.ev})

Check(e) ==
  SMCheck(e, e.post.dispute.disputes) \cup
  LET post == e.post.dispute.disputes
      pv == e.post.dispute.voters
  IN CheckStatus(e, post) \cup CheckNew(e, post) \cup CheckDeadlines(post)
     \cup (IF e.ev = "Vote" THEN CheckVote(e, post, pv)
           ELSE IF e.ev \in {"ClaimReward"} THEN {}
           ELSE (IF \A v \in Range(voters) : \E w \in Range(pv) : w.id = v.id /\ w.who = v.who /\ w.choice = v.choice /\ w.power = v.power THEN {} ELSE {"VotesNeverAlteredByOtherOperations_" \o e.ev}))
     \cup CheckCounts(post, pv, e.post.dispute.team, userW')
     \cup CheckTally(e, post, e.post.bank.supply)

Step ==
  /\ l <= Len(Trace)
  /\ LET e == Trace[l]
         reset == e.hist # hist
         post == e.post.dispute.disputes
         okSelVote == e.ev = "Vote" /\ e.ok /\ e.issel /\ ~e.isrep /\ ~HasVoted(voters, e.id, e.selrep)
         key == IF e.ev = "Vote" THEN <<e.id, e.selrep>> ELSE <<0, "none">>
     IN /\ hist' = e.hist
        /\ disp' = post /\ voters' = e.post.dispute.voters /\ supply' = e.post.bank.supply
        /\ edges' = (IF reset THEN {} ELSE edges) \cup { <<d.id, ById(disp, d.id).status, d.status>> : d \in { x \in Range(post) : ~reset /\ Has(disp, x.id) /\ ById(disp, x.id).status # x.status } }
        /\ selVoted' = IF reset THEN <<>>
                       ELSE IF okSelVote
                       THEN [k \in (DOMAIN selVoted) \cup {key} |-> IF k = key THEN (IF key \in DOMAIN selVoted THEN selVoted[key] ELSE Zero) ++ e.seltok ELSE selVoted[k]]
                       ELSE selVoted
        /\ userW' = IF reset THEN <<>>
                    ELSE IF e.ev = "Vote" /\ e.ok
                    THEN [k \in (DOMAIN userW) \cup {<<e.id, e.who>>} |-> IF k = <<e.id, e.who>> THEN e.usertips ELSE userW[k]]
                    ELSE userW
        /\ viol' = IF reset THEN viol ELSE AddViol(viol, l, Check(e))
        /\ l' = l + 1
Spec == Init /\ [][Step]_tvars
Done == (l = Len(Trace) + 1) => PrintT(<<"VIOLS", ToJson(viol)>>)
Accepted == TLCGet("stats").diameter - 1 = Len(Trace)
=============================================================================
