------------------------------- MODULE Ledger -------------------------------
(* C03: total supply changes only by the documented, exactly quantified events. *)
(*   time-based mint   +Rate*elapsed_ms \div MsPerDay, only once governance has   *)
(*                     started it; 3/4 (rounded up) to the reporter reward pool,  *)
(*                     1/4 (rounded down) to the validator fee pool               *)
(*   tip               -(2*amount) \div 100                                        *)
(*   deposit claim     +reported amount \div 10^12 per claimed deposit             *)
(*   bridge withdrawal -amount                                                     *)
(*   dispute execution -burn (half of the burn amount, all of it with no voters)   *)
(*   refund dust       -whole loya accumulated from 10^-6 remainders               *)
(* every other operation: supply unchanged.                                        *)
EXTENDS Num, Integers, Sequences, FiniteSets
CONSTANTS Rate, MsPerDay,         \* Num: loya per day, milliseconds per day
          NsPerMs                 \* Num: time resolution units per millisecond (10^6 on the chain)

VARIABLES supply,    \* total supply (Num)
          minit,     \* minting started by governance
          hasprev,   \* a previous block time has been recorded
          prev,      \* that time (ns)
          tbr,       \* balance of the reporter reward pool
          lnow,      \* current block time (ns)
          ivals      \* history: sequence of [t0, minted] = what was minted since t0
lvars == <<supply, minit, hasprev, prev, tbr, lnow>>

\* times are in NANOSECONDS (consensus block-time resolution); the provision counts whole elapsed milliseconds
ElapsedMs(t) == (t -- prev) // NsPerMs
Provision(t) == IF minit /\ hasprev THEN (Rate ** ElapsedMs(t)) // MsPerDay ELSE Zero
Quarter(x) == x // N(4)
AddMinted(iv, x) == [i \in DOMAIN iv |-> [t0 |-> iv[i].t0, minted |-> iv[i].minted ++ x]]

LedgerInit(s0, t0) ==
  /\ supply = s0 /\ minit = FALSE /\ hasprev = FALSE /\ prev = Zero /\ tbr = Zero /\ lnow = t0
  /\ ivals = << [t0 |-> t0, minted |-> Zero] >>

(* begin-block: mint for the elapsed time, then dispute executions may burn `burn` *)
LBegin(dt, burn) ==
  LET t == lnow ++ dt
      x == Provision(t)
  IN /\ burn \preceq (supply ++ x)
     /\ lnow' = t
     /\ supply' = (supply ++ x) -- burn
     /\ tbr' = tbr ++ (x -- Quarter(x))
     /\ minit' = minit
     /\ hasprev' = (hasprev \/ minit)
     /\ prev' = IF minit THEN t ELSE prev

LStartMint == /\ minit' = TRUE /\ UNCHANGED <<supply, hasprev, prev, tbr, lnow>>
LTip(a) == /\ supply' = supply -- ((N(2) ** a) // N(100)) /\ UNCHANGED <<minit, hasprev, prev, tbr, lnow>>
LClaim(total) == /\ supply' = supply ++ total /\ UNCHANGED <<minit, hasprev, prev, tbr, lnow>>
LWithdraw(a) == /\ a \preceq supply /\ supply' = supply -- a /\ UNCHANGED <<minit, hasprev, prev, tbr, lnow>>
LDustBurn(b) == /\ b \preceq supply /\ supply' = supply -- b /\ UNCHANGED <<minit, hasprev, prev, tbr, lnow>>
\* end-of-block reward payout empties the reward pool or leaves it; it never changes supply
LPayout(newTbr) == /\ newTbr \preceq tbr /\ tbr' = newTbr /\ UNCHANGED <<supply, minit, hasprev, prev, lnow>>
LOther == UNCHANGED <<supply, minit, hasprev, prev, tbr, lnow>>
\* history bookkeeping (kept apart from the actions so that trace checking can start intervals freely)
TrackMint(x) == ivals' = AddMinted(ivals, x)
KeepIvals == UNCHANGED ivals

(* cumulative inflation over any interval never exceeds rate * elapsed time.            *)
(* (stated over explicit arguments: under the big-number backend TLC must evaluate      *)
(* arithmetic inside an action - primed expressions and invariants are evaluated        *)
(* without caching of lazily passed arguments, which is exponential for limb recursion) *)
InflationBoundAt(iv, nw) == \A i \in DOMAIN iv : (iv[i].minted ** (MsPerDay ** NsPerMs)) \preceq (Rate ** (nw -- iv[i].t0))
NoMintBeforeStartAt(mi, iv) == (~mi) => \A i \in DOMAIN iv : IsZero(iv[i].minted)
InflationBound == InflationBoundAt(ivals, lnow)
NoMintBeforeStart == NoMintBeforeStartAt(minit, ivals)
=============================================================================
