SPECIFICATION Spec
INVARIANT Done
POSTCONDITION Accepted
CHECK_DEADLOCK FALSE
