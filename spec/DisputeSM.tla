------------------------------ MODULE DisputeSM ------------------------------
(* The dispute life cycle as a constructive state machine: one operator per    *)
(* critical section of x/dispute (SetNewDispute, AddDisputeRound, AddFee,      *)
(* Vote -> TallyVote, BeginBlocker = CheckOpenDisputesForExpiration +          *)
(* CheckClosedDisputesForExecution -> ExecuteVote).  A dispute is the record   *)
(*   [id, hash, status, round, slash, burn, feetotal, startn, endn, open,      *)
(*    pending, prev, vote [has, startn, endn, result, executed]]               *)
(* (field names of the harness projection; times in ns).  Money movement is    *)
(* C11/C13's subject and is not modelled here; the tally's outcome is a         *)
(* parameter (C12's tally operators decide which outcomes are admissible).      *)
EXTENDS Dispute

TwoDaysNs == N(2) ** DayNs
ThreeDaysNs == N(3) ** DayNs
MinFee == N(10000)                 \* layer.OnePercent: 1% of one token
NoVote == [has |-> FALSE, startn |-> Zero, endn |-> Zero, result |-> 0, executed |-> FALSE]
StartVote(now) == [has |-> TRUE, startn |-> now, endn |-> now ++ TwoDaysNs, result |-> 0, executed |-> FALSE]

OfHash(ds, hash) == { d \in ds : d.hash = hash }
Latest(ds, hash) == CHOOSE d \in OfHash(ds, hash) : \A x \in OfHash(ds, hash) : x.id <= d.id
IdOf(ds, id) == CHOOSE d \in ds : d.id = id
HasId(ds, id) == \E d \in ds : d.id = id

\* ---------------- ProposeDispute ----------------
\* first dispute of a (report, category): fee is capped at the slash amount; fully paid => voting starts at once
NewDispute(now, id, hash, slash, fee) ==
  LET paid == NMin(fee, slash)
      funded == paid = slash
  IN [id |-> id, hash |-> hash, status |-> IF funded THEN VOTING ELSE PREVOTE, round |-> 1,
      slash |-> slash, burn |-> slash // N(20), feetotal |-> paid,
      startn |-> now, endn |-> now ++ (IF funded THEN ThreeDaysNs ELSE DayNs),
      open |-> TRUE, pending |-> FALSE, prev |-> <<id>>,
      vote |-> IF funded THEN StartVote(now) ELSE NoVote]
\* a further round: only on an unresolved, open, unexpired latest round, for at least the (doubling, capped) round fee
RoundOk(old, now, fee) == old.status = UNRESOLVED /\ old.open /\ ~(old.endn \prec now) /\ RoundFee(old.slash, old.round) \preceq fee
RoundNext(ds, now, newid, old) ==
  LET rf == RoundFee(old.slash, old.round)
      closed == [old EXCEPT !.open = FALSE, !.pending = FALSE]
      \* the new round is the old record as it was read (open, pending execution) with a new id, clock and vote
      nw == [old EXCEPT !.id = newid, !.status = VOTING, !.startn = now, !.endn = now ++ ThreeDaysNs, !.round = @ + 1,
                        !.prev = Append(@, newid), !.burn = @ ++ rf, !.feetotal = @ ++ rf, !.vote = StartVote(now)]
  IN (ds \ {old}) \cup {closed, nw}
ProposeOk(ds, now, hash, fee) == MinFee \preceq fee /\ (OfHash(ds, hash) # {} => RoundOk(Latest(ds, hash), now, fee))
ProposeNext(ds, now, newid, hash, slash, fee) ==
  IF OfHash(ds, hash) = {} THEN ds \cup {NewDispute(now, newid, hash, slash, fee)}
  ELSE RoundNext(ds, now, newid, Latest(ds, hash))

\* ---------------- AddFeeToDispute ----------------
\* (d.status = PREVOTE was missing in the code - F-24, found by TLC on this model as a violation of ExecutionIsFinal: an
\*  executed round voted against the dispute has slash > feetotal again and could be "funded" a second time)
AddFeeOk(d, now, amt) == ~IsZero(amt) /\ ~(d.endn \prec now) /\ d.feetotal \prec d.slash /\ d.status = PREVOTE
AddFeeNext(d, now, amt) ==
  LET ft == d.feetotal ++ NMin(amt, d.slash -- d.feetotal) IN
  IF ft = d.slash THEN [d EXCEPT !.feetotal = ft, !.endn = now ++ ThreeDaysNs, !.status = VOTING, !.vote = StartVote(now)]
  ELSE [d EXCEPT !.feetotal = ft]

\* ---------------- Vote ----------------
VoteOk(d, now) == d.status = VOTING /\ d.vote.has /\ ~(d.vote.endn \prec now)
\* res: what the tally that follows the vote decides: 0 still voting, 1..3 quorum reached
AfterQuorum(d, now, res) == [d EXCEPT !.status = RESOLVED, !.open = FALSE, !.pending = TRUE, !.vote.result = res, !.vote.endn = now]
VoteNext(d, now, res) == IF res = 0 THEN d ELSE AfterQuorum(d, now, res)

\* ---------------- BeginBlocker ----------------
\* phase 1 (open disputes): prevote past its deadline fails; voting past its vote end is tallied (res 1..3 with quorum,
\* 4..6 without: unresolved and pending, resolved and closed when the dispute's own end has passed too)
NeedsTally(d, now) == d.open /\ d.status = VOTING /\ d.vote.has /\ d.vote.endn \prec now /\ d.vote.result = 0
Expire(d, now, res) ==
  IF d.open /\ d.status = PREVOTE /\ d.endn \prec now THEN [d EXCEPT !.status = FAILED, !.open = FALSE]
  ELSE IF NeedsTally(d, now) THEN
       (IF res \in 1 .. 3 THEN AfterQuorum(d, now, res)
        ELSE IF d.endn \prec now THEN [d EXCEPT !.status = RESOLVED, !.open = FALSE, !.pending = TRUE, !.vote.result = res, !.vote.endn = now]
        ELSE [d EXCEPT !.status = UNRESOLVED, !.pending = TRUE, !.vote.result = res, !.vote.endn = now])
  ELSE d
\* phase 2 (pending execution): past the dispute's end, or resolved
Due(d, now) == d.pending /\ (d.endn \prec now \/ d.status = RESOLVED)
ExecStatus(d, now) == IF d.vote.result # 0 /\ d.endn \prec now THEN RESOLVED ELSE d.status
ExecFails(d, now) == ExecStatus(d, now) # RESOLVED \/ d.vote.executed \/ d.vote.result = 0
\* (a result against the dispute returns the escrowed stake plus the fee to the reporter's backers; the amount returned is
\*  written back into the stored slash amount)
Execute(d, now) == [d EXCEPT !.status = ExecStatus(d, now), !.vote.executed = TRUE, !.pending = FALSE,
                             !.slash = IF d.vote.result \in {2, 5} THEN @ ++ Monus(@, d.burn) ELSE @]
\* res(d): tally outcome for the disputes that need one
BeginNext(ds, now, res(_)) ==
  LET p1 == { Expire(d, now, res(d)) : d \in ds }
      fails == \E d \in p1 : Due(d, now) /\ ExecFails(d, now)
  IN [ds |-> { IF Due(d, now) /\ ~ExecFails(d, now) THEN Execute(d, now) ELSE d : d \in p1 }, fails |-> fails]

\* ---------------- what must hold of every reachable table ----------------
Terminal(d) == d.status = FAILED \/ d.vote.executed \/ (~d.open /\ ~d.pending)
\* after a begin-block at time now nothing is overdue
NothingOverdue(ds, now) ==
  \A d \in ds : /\ ~(d.open /\ d.status = PREVOTE /\ d.endn \prec now)
                /\ ~NeedsTally(d, now)
                /\ (d.endn \prec now => Terminal(d))
=============================================================================
