----------------------------- MODULE VoteExt_MC -----------------------------
(* Enumerates extended commits of the three validators: every mix of           *)
(* commit / absent / nil flags and vote-extension shapes, and prints each case  *)
(* to be materialised as a real, signed ExtendedCommitInfo.                      *)
EXTENDS VoteExt, TLC, Json
CONSTANTS Shapes
VARIABLE c
Flags == {"commit", "absent", "nil"}
Vals == <<"v0", "v1", "v2">>
Init == \E f \in [1 .. 3 -> Flags], s \in [1 .. 3 -> Shapes] :
          /\ \A i \in 1 .. 3 : f[i] = "absent" => s[i] = "empty"
          /\ c = [i \in 1 .. 3 |-> [val |-> Vals[i], flag |-> f[i], shape |-> s[i]]]
Next == UNCHANGED c
Emit == PrintT(<<"CASE", ToJson(c)>>)
=============================================================================
