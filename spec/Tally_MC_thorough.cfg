INIT Init
NEXT Next
CONSTANTS
  W = {0, 1, 2, 3}
  Totals = {0, 3, 4, 6}
  Supply = 12
INVARIANT Emit
CHECK_DEADLOCK FALSE
