------------------------------- MODULE Bridge -------------------------------
(* C14: bridge deposits mint once, conditionally; withdrawals burn what they   *)
(* attest.                                                                      *)
(*   claimed  : set of deposit ids already turned into tokens                   *)
(*   wid      : last withdrawal id issued                                       *)
(*   cps      : checkpoints [ts, thr] (power threshold in force from ts on)     *)
(* A claim names (deposit id, index) pairs; for each the oracle store holds      *)
(* (or not) an aggregate: [found, flag, ts, pow, dec [ok, rcpt, amount, tip,     *)
(* badrcpt]].                                                                     *)
EXTENDS Num, Integers, Sequences, FiniteSets

TwelveHoursMs == N(43200000)
E12 == Pow10(12)
\* threshold in force when the report was made: that of the latest checkpoint strictly before its timestamp
ThresholdAt(cps, ts) ==
  LET I == { i \in DOMAIN cps : cps[i].ts \prec ts } IN
  IF I = {} THEN [none |-> TRUE]
  ELSE [none |-> FALSE, thr |-> cps[CHOOSE i \in I : \A j \in I : cps[j].ts \preceq cps[i].ts].thr]

\* one (id, index) of a claim is claimable in state (claimed, cps) at time now
Claimable(c, claimed, cps, now) ==
  /\ c.found /\ ~c.flag
  /\ c.id \notin claimed
  /\ ~ThresholdAt(cps, c.ts).none /\ ThresholdAt(cps, c.ts).thr \preceq c.pow
  /\ c.ts \preceq now /\ TwelveHoursMs \preceq (now -- c.ts)
  /\ c.dec.ok /\ ~c.dec.badrcpt
  /\ c.dec.tip \preceq c.dec.amount

\* a batch is processed in order; a deposit id claimed earlier in the same batch is no longer claimable
RECURSIVE BatchOk(_, _, _, _)
BatchOk(cs, claimed, cps, now) ==
  IF cs = <<>> THEN TRUE
  ELSE Claimable(Head(cs), claimed, cps, now) /\ BatchOk(Tail(cs), claimed \cup {Head(cs).id}, cps, now)

Minted(c) == c.dec.amount // E12
TipPart(c) == c.dec.tip // E12
=============================================================================
