SPECIFICATION Spec
CONSTANTS
  Accounts = {"a", "b", "c"}
  Cap0 = 3
  Unbond = 3
  MaxNow = 7
  AllowRemoval = FALSE
INVARIANT Inv
PROPERTY LocksNeverShorten
CHECK_DEADLOCK FALSE
