-------------------------- MODULE Determinism_Trace --------------------------
(* C01 binding: the trace lists, block by block, the observation of each of the *)
(* K replicas that executed the same generated history on fresh production apps  *)
(* (different GOMAXPROCS, IAVL cache sizes, home directories, run at different    *)
(* times; Go randomises map iteration per range statement).  The first replica's  *)
(* observation of a block is the reference the others must equal.                 *)
EXTENDS Determinism, Json, TLC, TraceLib
CONSTANT KNOWN
Trace == ndJsonDeserialize("trace.ndjson")
VARIABLES l, viol, ref
tvars == <<l, viol, ref>>
Init == l = 1 /\ viol = {} /\ ref = [hist |-> 0, b |-> 0, o |-> <<>>]
Obs(e) == IF e.present THEN [present |-> TRUE, h |-> e.h, apphash |-> e.apphash, evhash |-> e.evhash, aggs |-> e.aggs, ok |-> e.ok]
          ELSE [present |-> FALSE]
Step == /\ l <= Len(Trace)
        /\ LET e == Trace[l]
               first == e.k = 1
               same == ref.hist = e.hist /\ ref.b = e.b
           IN /\ ref' = IF first THEN [hist |-> e.hist, b |-> e.b, o |-> Obs(e)] ELSE ref
              /\ viol' = AddViol(viol, l,
                    IF first THEN {}
                    ELSE IF ~same THEN {"TraceShape"}
                    ELSE IF Agree(ref.o, Obs(e)) THEN {}
                    ELSE (IF ref.o.present /\ e.present /\ ref.o.aggs # e.aggs THEN {"SameAggregatesOnEveryReplica"} ELSE {})
                         \cup (IF ref.o.present /\ e.present /\ ref.o.evhash # e.evhash THEN {"SameEventsOnEveryReplica"} ELSE {})
                         \cup {"SameStateOnEveryReplica"})
              /\ l' = l + 1
Spec == Init /\ [][Step]_tvars
Done == (l = Len(Trace) + 1) => PrintT(<<"VIOLS", ToJson(viol)>>)
Accepted == TLCGet("stats").diameter - 1 = Len(Trace)
=============================================================================
