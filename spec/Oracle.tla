------------------------------- MODULE Oracle -------------------------------
(* C07: reports enter only an open round; each round aggregates exactly once.  *)
(* A round is a record [q, id, amt, exp, cyc, rep, win]:                        *)
(*   q query name, id round id (fresh, increasing), amt unpaid tip (Num),       *)
(*   exp last height at which reports are accepted, cyc scheduled-by-cycle-list *)
(*   flag, rep has reports, win window length used when (re)opened.             *)
(* The operators below are shared by the design-level model (Oracle_MC, native  *)
(* numbers) and the trace spec (Oracle_Trace, big numbers).                     *)
EXTENDS Num, Integers, Sequences, FiniteSets

RoundsOf(qs, q) == { r \in qs : r.q = q }
HasCur(qs, q) == RoundsOf(qs, q) # {}
Cur(qs, q) == CHOOSE r \in RoundsOf(qs, q) : \A s \in RoundsOf(qs, q) : s.id <= r.id

\* ---- admission of a report (msg_server_submit_value.go) ----
\* kind: "normal" | "deposit" | "withdrawal";  reporterOk: exists, not jailed, stake >= minimum
WindowOpen(qs, q, h) == HasCur(qs, q) /\ LET c == Cur(qs, q) IN (~IsZero(c.amt) \/ c.cyc) /\ h <= c.exp
Admit(qs, q, kind, h, reporterOk) ==
  /\ reporterOk
  /\ kind # "withdrawal"
  /\ (kind = "deposit" \/ WindowOpen(qs, q, h))

\* ---- end of block: rounds that close and aggregate ----
Closing(qs, h) == { r \in qs : r.rep /\ r.exp <= h }

\* ---- rotation of the cycle list (cycle_list.go) ----
NextIdx(idx, n) == IF idx >= n - 1 THEN 0 ELSE idx + 1
\* the current cycle query still has an open window after this block's aggregation
CurStillOpen(qs, cycq, h) == HasCur(qs, cycq) /\ Cur(qs, cycq).exp > h

\* ---- tipping (msg_server_tip.go): net = amount minus the 2% burn ----
TipNet(a) == a -- ((N(2) ** a) // N(100))
=============================================================================
