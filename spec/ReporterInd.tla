---------------------------- MODULE ReporterInd ----------------------------
(* The selection model of ReporterSM (create / select / switch with the lock    *)
(* rule / report / time), typed for Apalache, with an INDUCTIVE invariant: for   *)
(* any number of steps and unbounded time, the same stake never serves two       *)
(* reporters within one unbonding period (fixed, small set of accounts).         *)
EXTENDS Integers, FiniteSets, Apalache

CONSTANTS
  \* @type: Set(Str);
  Accounts,
  \* @type: Int;
  Unbond,
  \* @type: Int;
  Cap

VARIABLES
  \* @type: Int;
  now,
  \* @type: Str -> Bool;
  has,
  \* @type: Str -> Str;
  rep,
  \* @type: Str -> Int;
  locked,
  \* @type: Set(Str);
  reported,
  \* @type: Str -> Set({rep: Str, t: Int});
  served

CInit == Accounts = {"a", "b", "c"} /\ Unbond = 3 /\ Cap = 2

SelsOf(r) == { s \in Accounts : has[s] /\ rep[s] = r }
IsReporter(r) == has[r] /\ rep[r] = r
Counted(r) == { s \in SelsOf(r) : locked[s] <= now }

Init ==
  /\ now = 0
  /\ has = [a \in Accounts |-> FALSE]
  /\ rep = [a \in Accounts |-> a]
  /\ locked = [a \in Accounts |-> 0]
  /\ reported = {}
  /\ served = [a \in Accounts |-> {}]

Create(a) ==
  /\ ~has[a]
  /\ has' = [has EXCEPT ![a] = TRUE] /\ rep' = [rep EXCEPT ![a] = a] /\ locked' = [locked EXCEPT ![a] = 0]
  /\ UNCHANGED <<now, reported, served>>
Select(s, r) ==
  /\ ~has[s] /\ IsReporter(r) /\ Cardinality(SelsOf(r)) < Cap
  /\ has' = [has EXCEPT ![s] = TRUE] /\ rep' = [rep EXCEPT ![s] = r] /\ locked' = [locked EXCEPT ![s] = 0]
  /\ UNCHANGED <<now, reported, served>>
Switch(s, r) ==
  /\ has[s] /\ rep[s] # s /\ IsReporter(r) /\ Cardinality(SelsOf(r)) < Cap
  /\ rep' = [rep EXCEPT ![s] = r]
  /\ locked' = [locked EXCEPT ![s] = IF rep[s] \in reported THEN now + Unbond ELSE locked[s]]
  /\ UNCHANGED <<now, has, reported, served>>
Report(r) ==
  /\ IsReporter(r) /\ Counted(r) # {}
  /\ reported' = reported \union {r}
  /\ served' = [a \in Accounts |-> IF a \in Counted(r) THEN served[a] \union {[rep |-> r, t |-> now]} ELSE served[a]]
  /\ UNCHANGED <<now, has, rep, locked>>
Tick == now' = now + 1 /\ UNCHANGED <<has, rep, locked, reported, served>>

Next == \/ \E a \in Accounts : Create(a) \/ Report(a)
        \/ \E s \in Accounts : \E r \in Accounts : Select(s, r) \/ Switch(s, r)
        \/ Tick

\* the property
Safe == \A a \in Accounts : \A x \in served[a] : \A y \in served[a] :
          x.rep # y.rep => (x.t + Unbond <= y.t \/ y.t + Unbond <= x.t)

\* the inductive invariant
IndInv ==
  /\ now >= 0 /\ Unbond > 0
  /\ \A a \in Accounts : rep[a] \in Accounts /\ locked[a] >= 0
  /\ reported \subseteq Accounts
  /\ \A a \in Accounts : \A x \in served[a] :
        /\ x.rep \in reported /\ x.rep \in Accounts
        /\ x.t <= now /\ x.t >= 0
        /\ has[a]
        \* a service for a reporter other than the present one is locked out for a whole period
        /\ (rep[a] # x.rep => locked[a] >= x.t + Unbond)
  /\ Safe
\* an arbitrary state satisfying the invariant (the start of the induction step).  served is generated with at most
\* three records per account: IndInv is closed under taking subsets of served[a] and a violation of Safe involves two
\* records, so sets of at most two old records plus the one a step adds cover every case.
IndInit ==
  /\ now \in Int
  /\ has \in [Accounts -> BOOLEAN]
  /\ rep \in [Accounts -> Accounts]
  /\ locked \in [Accounts -> Int]
  /\ reported \in SUBSET Accounts
  /\ served = Gen(3)
  /\ DOMAIN served = Accounts
  /\ IndInv
=============================================================================
