SPECIFICATION Spec
CONSTANTS
  DayNs <- MC_Day
  Hashes = {"h1"}
  Voters = {"team", "user", "rep"}
  Q = 2
  Slash = 40000
  Fees = {10000, 40000}
  Gaps = {1, 2, 3, 4, 5, 6, 7}
  MaxId = 3
  MaxNow = 16
INVARIANT Inv
PROPERTIES StatusGraph ExecutionIsFinal ClosedStaysClosed
CHECK_DEADLOCK FALSE
