-------------------------- MODULE Aggregation_MC --------------------------
(* Exhaustive enumeration of every report sequence with 1..MaxN reporters,     *)
(* powers in Pw and values in Vals; checks the definitional theorems and       *)
(* prints each case as JSON for replay against the real aggregation functions. *)
EXTENDS Aggregation, TLC, Json
CONSTANTS MaxN, Pw, Vals
VARIABLE rs
Rep(i) == <<"r1", "r2", "r3", "r4", "r5">>[i]
Hex == <<"0","1","2","3","4","5","6","7","8","9","a","b","c","d","e","f">>
Cases == UNION { [1 .. n -> Vals \X Pw] : n \in 1 .. MaxN }
Mk(c) == [i \in 1 .. Len(c) |-> [rep |-> Rep(i), val |-> N(c[i][1]), raw |-> Hex[c[i][1] + 1], pow |-> N(c[i][2])]]
Init == \E c \in Cases : rs = Mk(c)
Next == UNCHANGED rs
Thm == MedianExists(rs) /\ ModeExists(rs) /\ MediansAreHalfSplit(rs) /\ DistinctReporters(rs)
Emit == PrintT(<<"CASE", ToJson([i \in Idx(rs) |-> [rep |-> rs[i].rep, raw |-> rs[i].raw, pow |-> rs[i].pow]])>>)
=============================================================================
