----------------------------- MODULE BridgeSM_MC -----------------------------
(* Design level for C14: every interleaving, within small bounds, of deposit    *)
(* aggregates appearing (one or two per deposit id, any power, any decoded       *)
(* amount/tip), disputes flagging them, checkpoints changing the threshold, time *)
(* passing around the 12-hour boundary, batch claims (any one or two (id, index) *)
(* pairs, repeated ids included) and withdrawals.  History variables mintedFor   *)
(* (id -> amount minted for it so far, count) and burned make the properties     *)
(* state predicates.                                                             *)
EXTENDS BridgeSM, TLC
CONSTANTS Ids, Accts, Claimers, Rcpts, Powers, Thrs, Amounts, Tips, Steps, MaxTicks, MaxAggs, MaxCps, MaxWd
VARIABLES led, aggs, cps, now, mints, burned, ticks
mvars == <<led, aggs, cps, now, mints, burned, ticks>>
\* aggs: set of [id, idx, flag, ts, pow, amount, tip, rcpt]   (amount, tip in 10^12 units of the token's smallest unit)
\* mints: set of [id, idx, at, amount]                         (history: what every successful claim minted)
MC_E12 == N(10)   \* stands for 10^12 (TLC's native integers are 32-bit): configured as E12 <- MC_E12
AsClaim(a) == [id |-> a.id, found |-> TRUE, flag |-> a.flag, ts |-> a.ts, pow |-> a.pow,
               dec |-> [ok |-> TRUE, rcpt |-> a.rcpt, amount |-> a.amount ** E12, tip |-> a.tip ** E12, badrcpt |-> FALSE]]
Missing(id) == [id |-> id, found |-> FALSE, flag |-> FALSE, ts |-> Zero, pow |-> Zero,
                dec |-> [ok |-> FALSE, rcpt |-> CHOOSE x \in Accts : TRUE, amount |-> Zero, tip |-> Zero, badrcpt |-> FALSE]]
Lookup(id, idx) == IF \E a \in aggs : a.id = id /\ a.idx = idx THEN AsClaim(CHOOSE a \in aggs : a.id = id /\ a.idx = idx) ELSE Missing(id)
Pairs == Ids \X {0, 1}
Batches == { <<p>> : p \in Pairs } \cup { <<p, q>> : p \in Pairs, q \in Pairs }
BatchOf(b) == [i \in DOMAIN b |-> Lookup(b[i][1], b[i][2])]

Init == /\ led = [claimed |-> {}, supply |-> N(100), bal |-> [a \in Accts |-> N(50)], wid |-> 0, pub |-> {}]
        /\ aggs = {} /\ cps = <<>> /\ now = N(1) /\ mints = {} /\ burned = Zero /\ ticks = 0

NewAggregate == \E id \in Ids, p \in Powers, am \in Amounts, tp \in Tips, r \in Rcpts :
  /\ Cardinality(aggs) < MaxAggs
  /\ LET n == Cardinality({a \in aggs : a.id = id}) IN
     /\ n < 2
     /\ \A a \in aggs : a.id = id => a.ts \prec now          \* one aggregate of a query per block
     /\ aggs' = aggs \cup {[id |-> id, idx |-> n, flag |-> FALSE, ts |-> now, pow |-> p, amount |-> am, tip |-> tp, rcpt |-> r]}
  /\ UNCHANGED <<led, cps, now, mints, burned, ticks>>
Flag == \E a \in aggs : ~a.flag /\ aggs' = (aggs \ {a}) \cup {[a EXCEPT !.flag = TRUE]} /\ UNCHANGED <<led, cps, now, mints, burned, ticks>>
Checkpoint == \E t \in Thrs :
  /\ Len(cps) < MaxCps /\ (IF cps = <<>> THEN TRUE ELSE cps[Len(cps)].ts \prec now)
  /\ cps' = Append(cps, [ts |-> now, thr |-> t]) /\ UNCHANGED <<led, aggs, now, mints, burned, ticks>>
Tick == \E d \in Steps : ticks < MaxTicks /\ ticks' = ticks + 1 /\ now' = now ++ d /\ UNCHANGED <<led, aggs, cps, mints, burned>>
Claim == \E c \in Claimers, b \in Batches :
  LET batch == BatchOf(b) IN
  /\ ClaimOk(led, cps, now, batch)
  /\ led' = ClaimNext(led, c, batch)
  /\ mints' = mints \cup { [id |-> b[i][1], idx |-> b[i][2], at |-> now, amount |-> Minted(batch[i]), pos |-> i] : i \in DOMAIN b }
  /\ UNCHANGED <<aggs, cps, now, burned, ticks>>
Withdraw == \E s \in Rcpts, r \in Claimers, am \in Amounts :
  /\ led.wid < MaxWd /\ WithdrawOk(led, s, am)
  /\ led' = WithdrawNext(led, s, r, am) /\ burned' = burned ++ am
  /\ UNCHANGED <<aggs, cps, now, mints, ticks>>
Next == NewAggregate \/ Flag \/ Checkpoint \/ Tick \/ Claim \/ Withdraw
Spec == Init /\ [][Next]_mvars

\* ---- properties ----
\* a deposit id is turned into tokens at most once - over all its aggregates, all batches and all positions in a batch
MintedAtMostOncePerDeposit == \A m1, m2 \in mints : m1.id = m2.id => m1 = m2
\* ... only from an unflagged aggregate at least 12 hours old that met the threshold in force when it was reported
AggOf(m) == CHOOSE a \in aggs : a.id = m.id /\ a.idx = m.idx
MintedOnlyFromQualifiedAggregates ==
  \A m \in mints :
    /\ \E a \in aggs : a.id = m.id /\ a.idx = m.idx
    /\ LET a == AggOf(m) IN
       /\ TwelveHoursMs \preceq (m.at -- a.ts)
       /\ ~ThresholdAt(cps, a.ts).none /\ ThresholdAt(cps, a.ts).thr \preceq a.pow
       /\ m.amount = a.amount
\* (the flag can be raised AFTER a claim; what must hold is that it was down at the claim: an action property)
NeverFromAFlaggedAggregate == [][\A m \in mints' \ mints : ~AggOf(m).flag]_mvars
\* the threshold that counts for an aggregate never changes once the aggregate exists (later checkpoints are later)
ThresholdAtReportTimeIsStable == [][\A a \in aggs : ThresholdAt(cps', a.ts) = ThresholdAt(cps, a.ts)]_mvars
\* supply and balances: exactly what was minted minus what was burned
SumBal == SumOver(led.bal, Accts)
MintedTotal == LET f == [m \in mints |-> m.amount] IN SumOver(f, mints)
SupplyIsMintsMinusBurns == led.supply ++ burned = N(100) ++ MintedTotal /\ SumBal ++ burned = N(50) ** N(Cardinality(Accts)) ++ MintedTotal
\* withdrawals: ids 1..wid, each published once with the amount burned
WithdrawalsPublishedOncePerId ==
  /\ { p.id : p \in led.pub } = 1 .. led.wid
  /\ \A p, q \in led.pub : p.id = q.id => p = q
  /\ LET f == [p \in led.pub |-> p.amount] IN SumOver(f, led.pub) = burned
ClaimedOnlyGrows == [][led.claimed \subseteq led'.claimed /\ led.wid <= led'.wid]_mvars
ClaimedIsWhatWasMinted == led.claimed = { m.id : m \in mints }
=============================================================================
