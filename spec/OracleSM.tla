------------------------------ MODULE OracleSM ------------------------------
(* The oracle round life cycle as a constructive state machine: one operator   *)
(* per critical section of x/oracle (msg_server_tip.go, msg_server_submit_     *)
(* value.go + token_bridge_deposit.go, aggregate.go SetAggregatedReport,       *)
(* cycle_list.go RotateQueries/ClearOldqueries).  Every operator computes the  *)
(* successor round table from the predecessor and the call's arguments; the    *)
(* design-level model (OracleSM_MC) composes them into Next, the trace spec    *)
(* (OracleSM_Trace) evaluates them against what the real keeper did.            *)
(*                                                                              *)
(* A round is [q, id, amt, exp, cyc, rep, win] as in Oracle.tla.  id and win    *)
(* of a round the step creates are parameters (the sequencer value and the     *)
(* registry's block window are inputs of the oracle module).                    *)
EXTENDS Oracle

DepositWindow == 2000

Replace(qs, old, new) == (qs \ {old}) \cup {new}
NewRound(q, id, amt, exp, cyc, rep, w) == [q |-> q, id |-> id, amt |-> amt, exp |-> exp, cyc |-> cyc, rep |-> rep, win |-> w]

\* ---- Tip (amount a, before the 2% burn) ----
TipNext(qs, h, q, a, id, w) ==
  LET net == TipNet(a) IN
  IF HasCur(qs, q)
  THEN LET c == Cur(qs, q)
           c1 == [c EXCEPT !.amt = @ ++ net]
           c2 == IF c.exp < h THEN [c1 EXCEPT !.exp = h + c.win, !.cyc = FALSE] ELSE c1
       IN Replace(qs, c, c2)
  ELSE qs \cup {NewRound(q, id, net, h + w, FALSE, FALSE, w)}
TipUsesId(qs, q) == ~HasCur(qs, q)

\* ---- SubmitValue, accepted (the guard is Oracle!Admit) ----
SubmitNormalNext(qs, q) == LET c == Cur(qs, q) IN Replace(qs, c, [c EXCEPT !.rep = TRUE])
\* bridge deposit reports open their own rounds and re-open them when they have run out
SubmitDepositNext(qs, h, q, id) ==
  IF ~HasCur(qs, q)
  THEN qs \cup {NewRound(q, id, Zero, h + DepositWindow, TRUE, TRUE, DepositWindow)}
  ELSE LET c == Cur(qs, q) IN
       IF IsZero(c.amt) /\ c.exp <= h
       THEN qs \cup {[c EXCEPT !.id = id, !.exp = h + c.win, !.rep = TRUE]}   \* the old key stays in the table
       ELSE IF ~IsZero(c.amt) /\ c.exp <= h
       THEN Replace(qs, c, [c EXCEPT !.exp = h + c.win, !.rep = TRUE])
       ELSE Replace(qs, c, [c EXCEPT !.rep = TRUE])
DepositUsesId(qs, h, q) == ~HasCur(qs, q) \/ (LET c == Cur(qs, q) IN IsZero(c.amt) /\ c.exp <= h)
\* the round a report accepted now lands in
LandingRound(qs2, q) == Cur(qs2, q)

\* ---- end of block, part 1: aggregation removes the closing rounds ----
AfterAggregation(qs, h) == qs \ Closing(qs, h)

\* ---- end of block, part 2: rotation (on the table left by aggregation) ----
CycleCur(cl, idx) == cl[idx + 1]
Rotates(qs, h, cl, idx) == ~CurStillOpen(qs, CycleCur(cl, idx), h)
Cleared(qs, h, q) == qs \ { r \in RoundsOf(qs, q) : r.exp < h /\ ~r.rep /\ IsZero(r.amt) }
RotateNext(qs, h, cl, idx, id, w) ==
  IF ~Rotates(qs, h, cl, idx) THEN [qs |-> qs, idx |-> idx, used |-> FALSE]
  ELSE LET i2 == NextIdx(idx, Len(cl))
           nq == cl[i2 + 1]
           cq == Cleared(qs, h, nq)
       IN IF ~HasCur(cq, nq)
          THEN [qs |-> cq \cup {NewRound(nq, id, Zero, h + w, TRUE, FALSE, w)}, idx |-> i2, used |-> TRUE]
          ELSE LET c == Cur(cq, nq) IN
               IF ~IsZero(c.amt)
               THEN [qs |-> Replace(cq, c, [c EXCEPT !.cyc = TRUE, !.exp = IF c.exp <= h THEN h + c.win ELSE c.exp]), idx |-> i2, used |-> FALSE]
               ELSE [qs |-> cq, idx |-> i2, used |-> FALSE]
EndNext(qs, h, cl, idx, id, w) == RotateNext(AfterAggregation(qs, h), h, cl, idx, id, w)

\* ---- governance ----
\* the stored list is keyed by query id; the index is reset when it falls outside the new list
CyclelistIdxNext(idx, newcl) == IF idx >= Len(newcl) THEN 0 ELSE idx
=============================================================================
