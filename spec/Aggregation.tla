---------------------------- MODULE Aggregation ----------------------------
(* C06: what "the weighted median" and "the weighted mode" of a non-empty      *)
(* multiset of reports ARE, stated from the definition (no algorithm).         *)
(* A report set is a sequence (arrival order) of records                       *)
(*   [rep |-> reporter name, val |-> Num (numeric value), raw |-> string as    *)
(*    submitted, pow |-> Num (reporting power >= 1)]                           *)
(* with pairwise distinct reporters.                                           *)
EXTENDS Num, Sequences, FiniteSets, Integers

Idx(rs) == 1 .. Len(rs)
Pows(rs, P(_)) == NSumSeq([i \in Idx(rs) |-> IF P(rs[i]) THEN rs[i].pow ELSE Zero])
Total(rs) == Pows(rs, LAMBDA r : TRUE)
Below(rs, v) == Pows(rs, LAMBDA r : r.val \prec v)
UpTo(rs, v) == Pows(rs, LAMBDA r : r.val \preceq v)

(* v is a weighted median: it was reported; strictly smaller values hold at    *)
(* most half of the total power; values up to and including v at least half.   *)
IsWeightedMedian(rs, v) ==
  /\ \E i \in Idx(rs) : rs[i].val = v
  /\ (N(2) ** Below(rs, v)) \preceq Total(rs)
  /\ Total(rs) \preceq (N(2) ** UpTo(rs, v))

(* weighted mode: value identity is the submitted string *)
Weight(rs, s) == Pows(rs, LAMBDA r : r.raw = s)
IsWeightedMode(rs, s) ==
  /\ \E i \in Idx(rs) : rs[i].raw = s
  /\ \A j \in Idx(rs) : Weight(rs, rs[j].raw) \preceq Weight(rs, s)

DistinctReporters(rs) == \A i, j \in Idx(rs) : rs[i].rep = rs[j].rep => i = j

(* An aggregate record agg = [raw, val, power, reporter, index (0-based),      *)
(* reporters |-> sequence of [rep, pow]] is well formed for rs:                *)
PowerIsTotal(rs, agg) == agg.power = Total(rs)
ListsEachOnce(rs, agg) ==
  /\ Len(agg.reporters) = Len(rs)
  /\ \A i \in Idx(rs) : \E j \in 1 .. Len(agg.reporters) :
        /\ agg.reporters[j].rep = rs[i].rep /\ agg.reporters[j].pow = rs[i].pow
  /\ \A j, k \in 1 .. Len(agg.reporters) : agg.reporters[j].rep = agg.reporters[k].rep => j = k
ReporterReportedIt(rs, agg) ==
  \E i \in Idx(rs) : rs[i].rep = agg.reporter /\ rs[i].raw = agg.raw
IndexNamesReporter(rs, agg) ==
  /\ agg.index + 1 \in 1 .. Len(agg.reporters)
  /\ agg.reporters[agg.index + 1].rep = agg.reporter

(* Design-level facts checked exhaustively by TLC in Aggregation_MC: the       *)
(* properties are satisfiable for every non-empty report set.                  *)
MedianExists(rs) == \E i \in Idx(rs) : IsWeightedMedian(rs, rs[i].val)
ModeExists(rs) == \E i \in Idx(rs) : IsWeightedMode(rs, rs[i].raw)
(* any two weighted medians v < w are "adjacent": no reported value strictly    *)
(* between them carries power ... and the two halves are exactly equal          *)
MediansAreHalfSplit(rs) ==
  \A i, j \in Idx(rs) :
     (IsWeightedMedian(rs, rs[i].val) /\ IsWeightedMedian(rs, rs[j].val) /\ rs[i].val \prec rs[j].val)
        => (N(2) ** UpTo(rs, rs[i].val)) = Total(rs)
=============================================================================
