SPECIFICATION SimSpec
CONSTANTS
  Accounts = {"a", "b", "c", "d", "e"}
  Cap0 = 3
  Unbond = 3
  MaxNow = 30
  AllowRemoval = FALSE
  D = 30
INVARIANT Inv Emit
CHECK_DEADLOCK FALSE
