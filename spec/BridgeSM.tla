------------------------------ MODULE BridgeSM ------------------------------
(* The token bridge as a constructive state machine: one operator per critical  *)
(* section of x/bridge (claim_deposit.go ClaimDeposit over a batch,             *)
(* withdraw_tokens.go WithdrawTokens) plus the three things other modules do to  *)
(* the tables a claim reads: a deposit aggregate appears (x/oracle), the report  *)
(* that determined it is disputed (flag), a validator-set checkpoint is taken    *)
(* (threshold in force from then on).  Guards are Bridge!Claimable / BatchOk.    *)
(*                                                                              *)
(*  ledger [claimed, supply, bal (account -> amount), wid, pub (set of published *)
(*  withdrawal aggregates [id, amount, sender, rcpt])]                           *)
EXTENDS Bridge

RECURSIVE SumOver(_, _)
SumOver(f, S) == IF S = {} THEN Zero ELSE LET x == CHOOSE x \in S : TRUE IN f[x] ++ SumOver(f, S \ {x})

\* ---- ClaimDeposits(claimer, batch): all or nothing ----
ClaimOk(led, cps, now, batch) == Len(batch) > 0 /\ BatchOk(batch, led.claimed, cps, now)
Credit(bal, who, amt) == [bal EXCEPT ![who] = @ ++ amt]
RECURSIVE PayBatch(_, _, _)
PayBatch(bal, claimer, batch) ==
  IF batch = <<>> THEN bal
  ELSE LET c == Head(batch) IN
       PayBatch(Credit(Credit(bal, claimer, TipPart(c)), c.dec.rcpt, Minted(c) -- TipPart(c)), claimer, Tail(batch))
RECURSIVE MintedBy(_)
MintedBy(batch) == IF batch = <<>> THEN Zero ELSE Minted(Head(batch)) ++ MintedBy(Tail(batch))
ClaimNext(led, claimer, batch) ==
  [led EXCEPT !.claimed = @ \cup { batch[i].id : i \in DOMAIN batch },
            !.supply = @ ++ MintedBy(batch),
            !.bal = PayBatch(@, claimer, batch)]

\* ---- WithdrawTokens(sender, rcpt, amt) ----
WithdrawOk(led, sender, amt) == ~IsZero(amt) /\ amt \preceq led.bal[sender]
WithdrawNext(led, sender, rcpt, amt) ==
  [led EXCEPT !.wid = @ + 1, !.supply = @ -- amt, !.bal = [@ EXCEPT ![sender] = @ -- amt],
            !.pub = @ \cup {[id |-> led.wid + 1, amount |-> amt, sender |-> sender, rcpt |-> rcpt]}]
=============================================================================
