------------------------------ MODULE Authority ------------------------------
(* C19: privileged changes need governance; messages touch only the signer's   *)
(* assets.                                                                      *)
(*  hold : account -> [bal, stake, credit (signed, x10^18), sel]                *)
(*  cfg  : configuration (params, cycle-list digest, data specs, minter         *)
(*         started, attestation limit, team)                                    *)
EXTENDS Num, Integers, Sequences, FiniteSets

GovOnly == {"MintInit", "UpdateCyclelist", "UpdateOracleParams", "UpdateReporterParams", "UpdateSnapshotLimit", "UpdateDataSpec"}
TeamOnly == {"UpdateTeam"}
Privileged == GovOnly \cup TeamOnly

\* a privileged message is accepted only from its authority
AuthorityOk(ev, signer, team) ==
  IF ev \in GovOnly THEN signer = "gov" ELSE IF ev \in TeamOnly THEN signer = team ELSE TRUE

\* holdings of account a are not reduced and its selection is unchanged
CreditLe(c1, c2) == \* c1 <= c2 on signed 18-decimal credits
  IF c1.neg /\ ~c2.neg THEN TRUE
  ELSE IF ~c1.neg /\ c2.neg THEN IsZero(c1.mag) /\ IsZero(c2.mag)
  ELSE IF c1.neg THEN c2.mag \preceq c1.mag ELSE c1.mag \preceq c2.mag
Untouched(h1, h2) ==
  /\ h1.bal \preceq h2.bal
  /\ h1.stake \preceq h2.stake
  /\ CreditLe(h1.credit, h2.credit)
  /\ h1.sel = h2.sel

\* accounts a non-privileged message may affect besides its signer:
\*  (i)   funding a dispute: the disputed reporter and the backers in the report's stake snapshot
\*  (ii)  fee paid from stake: the selectors of the signing reporter
\*  (iii) RemoveSelector: the removed selector (only its selection)
\*        - a selector whose bonded stake (observed delegations) fell below its reporter's minimum, the reporter being full
RemovalAllowed(e) ==
  LET B == { i \in DOMAIN e.seltokens : e.seltokens[i].bonded } IN
  NSum([i \in B |-> e.seltokens[i].tok], B) \prec e.repmin /\ e.nsel >= e.maxsel
MayTouch(ev, e, hold) ==
  {e.who}
  \cup (IF ev \in {"ProposeDispute", "AddFeeToDispute"} THEN {e.rep} \cup { e.backers[i] : i \in DOMAIN e.backers } ELSE {})
  \cup (IF ev \in {"ProposeDispute", "AddFeeToDispute"} /\ e.bond THEN { a \in DOMAIN hold : hold[a].sel = e.who } ELSE {})
  \cup (IF ev = "RemoveSelector" /\ RemovalAllowed(e) THEN {e.sel} ELSE {})
=============================================================================
