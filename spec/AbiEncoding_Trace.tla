-------------------------- MODULE AbiEncoding_Trace --------------------------
(* C15 binding: each line carries the input case, what the chain's exported     *)
(* encoder produced (bytes or hash) and the hash of the spec's pre-image         *)
(* computed with the real primitive; for byte outputs TLC recomputes the layout  *)
(* itself and compares byte for byte.                                            *)
EXTENDS AbiEncoding, Json, TLC, TraceLib, FiniteSets
CONSTANT KNOWN
Trace == ndJsonDeserialize("trace.ndjson")
VARIABLES l, viol
tvars == <<l, viol>>
Init == l = 1 /\ viol = {}
Check(e) ==
  IF ~e.ok THEN {"EncoderFailsOnValidInput_" \o e.kind}
  ELSE IF e.kind = "valset" THEN
     (IF e.bytes = ValsetPre(e.vs) THEN {} ELSE {"ValidatorSetEncodingIsAbiEncodeOfValidatorArray"})
     \cup (IF e.gohash = e.spechash THEN {} ELSE {"ValidatorSetHashMatchesContract"})
  ELSE IF e.kind = "checkpoint" THEN (IF e.gohash = e.spechash THEN {} ELSE {"CheckpointMatchesDomainSeparatedHash"})
  ELSE IF e.kind = "attest" THEN (IF e.gohash = e.spechash THEN {} ELSE {"AttestationDigestMatchesVerifyOracleData"})
  ELSE IF e.kind = "query" THEN (IF e.gohash = e.spechash THEN {} ELSE {"BridgeQueryIdMatchesTokenBridge"})
  ELSE IF e.kind = "wvalue" THEN (IF e.bytes = WithdrawValuePre(e.rcpt, e.sender, e.amount) THEN {} ELSE {"WithdrawalValueDecodesInTokenBridge"})
  ELSE IF e.kind = "sig" THEN (IF e.recovers THEN {} ELSE {"SignatureDigestConventionMatchesContract"})
  ELSE {"UnknownKind"}
Step == /\ l <= Len(Trace)
        /\ viol' = AddViol(viol, l, Check(Trace[l]))
        /\ l' = l + 1
Spec == Init /\ [][Step]_tvars
Done == (l = Len(Trace) + 1) => PrintT(<<"VIOLS", ToJson(viol)>>)
Accepted == TLCGet("stats").diameter - 1 = Len(Trace)
=============================================================================
