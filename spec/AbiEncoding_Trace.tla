-------------------------- MODULE AbiEncoding_Trace --------------------------
(* C15 binding: each line carries the input case, what the chain's exported     *)
(* encoder produced (bytes or hash) and the hash of the spec's pre-image         *)
(* computed with the real primitive; for byte outputs TLC recomputes the layout  *)
(* itself and compares byte for byte.                                            *)
EXTENDS AbiEncoding, Json, TLC, TraceLib, FiniteSets
CONSTANT KNOWN
Trace == ndJsonDeserialize("trace.ndjson")
VARIABLES l, viol
tvars == <<l, viol>>
Init == l = 1 /\ viol = {}
RECURSIVE FromBE(_)
FromBE(b) == IF b = <<>> THEN 0 ELSE 256 * FromBE(SubSeq(b, 1, Len(b) - 1)) + b[Len(b)]
RECURSIVE SumPowFrom(_, _)
SumPowFrom(vs, i) == IF i > Len(vs) THEN 0 ELSE FromBE(vs[i].power) + SumPowFrom(vs, i + 1)
SumPow(vs) == SumPowFrom(vs, 1)
Check(e) ==
  IF ~e.ok THEN {"EncoderFailsOnValidInput_" \o e.kind}
  ELSE IF e.kind = "valset" THEN
     (IF e.bytes = ValsetPre(e.vs) THEN {} ELSE {"ValidatorSetEncodingIsAbiEncodeOfValidatorArray"})
     \cup (IF e.gohash = e.spechash THEN {} ELSE {"ValidatorSetHashMatchesContract"})
     \* the power threshold stored with (and signed into) the checkpoint is two thirds of the set's total power
     \cup (IF "gothr" \in DOMAIN e /\ e.gothr # (2 * SumPow(e.vs)) \div 3 THEN {"PowerThresholdIsTwoThirdsOfTotalPower"} ELSE {})
  ELSE IF e.kind = "checkpoint" THEN (IF e.gohash = e.spechash THEN {} ELSE {"CheckpointMatchesDomainSeparatedHash"})
  ELSE IF e.kind = "attest" THEN (IF e.gohash = e.spechash THEN {} ELSE {"AttestationDigestMatchesVerifyOracleData"})
  ELSE IF e.kind = "query" THEN (IF e.gohash = e.spechash THEN {} ELSE {"BridgeQueryIdMatchesTokenBridge"})
  ELSE IF e.kind = "wvalue" THEN (IF e.bytes = WithdrawValuePre(e.rcpt, e.sender, e.amount) THEN {} ELSE {"WithdrawalValueDecodesInTokenBridge"})
  ELSE IF e.kind = "sig" THEN (IF e.recovers THEN {} ELSE {"SignatureDigestConventionMatchesContract"})
  \* the EVM address the chain registers for a validator (from its two initial signatures) is the one the contract's
  \* ecrecover yields for that key: keccak-256 of the two 32-byte, zero-padded coordinates, last 20 bytes
  ELSE IF e.kind = "evmaddr" THEN (IF e.chain = e.contract THEN {} ELSE {"RegisteredAddressIsWhatEcrecoverYields"})
  ELSE {"UnknownKind"}
Step == /\ l <= Len(Trace)
        /\ viol' = AddViol(viol, l, Check(Trace[l]))
        /\ l' = l + 1
Spec == Init /\ [][Step]_tvars
Done == (l = Len(Trace) + 1) => PrintT(<<"VIOLS", ToJson(viol)>>)
Accepted == TLCGet("stats").diameter - 1 = Len(Trace)
=============================================================================
