SPECIFICATION Spec
CONSTANTS
  Rate = 7
  MsPerDay = 5
  NsPerMs = 3
  Gaps = {1, 2, 4, 7}
  Amts = {1, 3}
  MaxT = 20
INVARIANTS InflationBound NoMintBeforeStart
PROPERTY SplitExact
CONSTRAINT Bound
CHECK_DEADLOCK FALSE
