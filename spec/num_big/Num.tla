------------------------------- MODULE Num -------------------------------
(* Big-number backend of the abstract numeric module, in pure TLA+.           *)
(* A number is a little-endian sequence of limbs in base LimbBase = 10^4, canonical  *)
(* (no most-significant zero limb; zero is << >>).  TLC integers are 32-bit,  *)
(* chain amounts (loya, ms timestamps, 18-decimal credits, uint64 prices) are *)
(* not; traces carry amounts as JSON arrays of limbs which ndJsonDeserialize   *)
(* turns into exactly these sequences.  Same interface as ../num_native.      *)
EXTENDS Integers, Sequences
LimbBase == 10000

RECURSIVE Norm(_)
Norm(a) == IF a = <<>> THEN a
           ELSE IF a[Len(a)] = 0 THEN Norm(SubSeq(a, 1, Len(a) - 1)) ELSE a

RECURSIVE N(_)
N(x) == IF x = 0 THEN <<>> ELSE <<x % LimbBase>> \o N(x \div LimbBase)
Zero == <<>>
One == <<1>>
IsZero(a) == a = <<>>

L(a, i) == IF i <= Len(a) THEN a[i] ELSE 0

RECURSIVE AddC(_, _, _, _)
AddC(a, b, i, c) ==
  IF i > Len(a) /\ i > Len(b) THEN (IF c = 0 THEN <<>> ELSE <<c>>)
  ELSE LET s == L(a, i) + L(b, i) + c IN <<s % LimbBase>> \o AddC(a, b, i + 1, s \div LimbBase)
a ++ b == AddC(a, b, 1, 0)

\* comparison: -1, 0, 1
RECURSIVE CmpFrom(_, _, _)
CmpFrom(a, b, i) == IF i = 0 THEN 0
                    ELSE IF a[i] < b[i] THEN -1
                    ELSE IF a[i] > b[i] THEN 1
                    ELSE CmpFrom(a, b, i - 1)
Cmp(a, b) == IF Len(a) < Len(b) THEN -1
             ELSE IF Len(a) > Len(b) THEN 1
             ELSE CmpFrom(a, b, Len(a))
a \preceq b == Cmp(a, b) <= 0
a \prec b == Cmp(a, b) < 0
a \succeq b == Cmp(a, b) >= 0
a \succ b == Cmp(a, b) > 0

\* a - b for b <= a (borrow chain); for b > a the result is meaningless, so callers guard.
RECURSIVE SubC(_, _, _, _)
SubC(a, b, i, c) ==
  IF i > Len(a) THEN <<>>
  ELSE LET d == a[i] - L(b, i) - c IN
       IF d < 0 THEN <<d + LimbBase>> \o SubC(a, b, i + 1, 1) ELSE <<d>> \o SubC(a, b, i + 1, 0)
a -- b == Norm(SubC(a, b, 1, 0))
Monus(a, b) == IF Cmp(a, b) >= 0 THEN a -- b ELSE <<>>
AbsDiff(a, b) == IF Cmp(a, b) >= 0 THEN a -- b ELSE b -- a
NMax(a, b) == IF Cmp(a, b) >= 0 THEN a ELSE b
NMin(a, b) == IF Cmp(a, b) <= 0 THEN a ELSE b

\* a * d for one limb d
RECURSIVE MulL(_, _, _, _)
MulL(a, d, i, c) ==
  IF i > Len(a) THEN (IF c = 0 THEN <<>> ELSE <<c>>)
  ELSE LET p == a[i] * d + c IN <<p % LimbBase>> \o MulL(a, d, i + 1, p \div LimbBase)
RECURSIVE MulFrom(_, _, _)
MulFrom(a, b, j) ==
  IF j > Len(b) THEN <<>>
  ELSE LET rest == MulFrom(a, b, j + 1)
           sh == IF rest = <<>> THEN <<>> ELSE <<0>> \o rest
       IN AddC(MulL(a, b[j], 1, 0), sh, 1, 0)
a ** b == IF a = <<>> \/ b = <<>> THEN <<>> ELSE Norm(MulFrom(a, b, 1))

\* <<q, r>> with a = q*b + r, 0 <= r < b   (b # 0), by repeated doubling
RECURSIVE DivMod(_, _)
DivMod(a, b) ==
  IF Cmp(a, b) < 0 THEN <<(<<>>), a>>
  ELSE LET qr == DivMod(a, b ++ b)
           q2 == qr[1] ++ qr[1]
           r == qr[2]
       IN IF Cmp(r, b) >= 0 THEN <<q2 ++ <<1>>, r -- b>> ELSE <<q2, r>>
a // b == DivMod(a, b)[1]
a %% b == DivMod(a, b)[2]

RECURSIVE Pow10(_)
Pow10(k) == IF k = 0 THEN <<1>> ELSE N(10) ** Pow10(k - 1)

RECURSIVE NSum(_, _)
NSum(f, S) == IF S = {} THEN <<>> ELSE LET x == CHOOSE y \in S : TRUE IN f[x] ++ NSum(f, S \ {x})
RECURSIVE NSumSeq(_)
NSumSeq(s) == IF s = <<>> THEN <<>> ELSE Head(s) ++ NSumSeq(Tail(s))
IsFloorDiv(q, a, b) == (q ** b) \preceq a /\ a \prec ((q ++ <<1>>) ** b)
=============================================================================
