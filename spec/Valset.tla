------------------------------- MODULE Valset -------------------------------
(* C16: validator-set checkpoints form a chain an EVM light client can follow. *)
(*   vals : observed validators [op, pow, evm (bytes), registered]              *)
(*   cur  : the bridge validator set saved with the last checkpoint             *)
(*   cps  : sequence of checkpoints [ts, thr, set, slots]                       *)
(* Sets are sequences of [evm, pow]; powers are whole tokens (Num).             *)
EXTENDS Num, Integers, Sequences, FiniteSets

Range(s) == { s[i] : i \in DOMAIN s }
RECURSIVE LexLess(_, _)
LexLess(a, b) == IF b = <<>> THEN FALSE ELSE IF a = <<>> THEN TRUE
                 ELSE IF Head(a) < Head(b) THEN TRUE ELSE IF Head(a) > Head(b) THEN FALSE ELSE LexLess(Tail(a), Tail(b))
Total(set) == NSumSeq([i \in DOMAIN set |-> set[i].pow])
PowerIn(set, addr) == LET I == { i \in DOMAIN set : set[i].evm = addr } IN NSum([i \in I |-> set[i].pow], I)

\* ---- what the bridge set must be: registered validators with non-zero power ----
Members(vals) == { [evm |-> vals[i].evm, pow |-> vals[i].pow] : i \in { j \in DOMAIN vals : vals[j].registered /\ ~IsZero(vals[j].pow) } }
\* descending power, then ascending address
Ordered(set) == \A i \in 1 .. Len(set) - 1 :
                   set[i + 1].pow \prec set[i].pow \/ (set[i].pow = set[i + 1].pow /\ LexLess(set[i].evm, set[i + 1].evm))
IsBridgeSet(set, vals) == Range(set) = Members(vals) /\ Len(set) = Cardinality(Members(vals)) /\ Ordered(set)

\* ---- when a new checkpoint is due ----
Addrs(a, b) == { a[i].evm : i \in DOMAIN a } \cup { b[i].evm : i \in DOMAIN b }
Shift(a, b) == LET A == Addrs(a, b) IN NSum([x \in A |-> AbsDiff(PowerIn(a, x), PowerIn(b, x))], A)
\* power shifted by at least 5% of the last saved set's total
ShiftedFivePercent(last, now) == Total(last) \preceq (N(20) ** Shift(last, now))
TwoWeeksMs == N(1209600000)
OneSecondMs == N(1000)
\* the last checkpoint (timestamp lastTs) is older than two weeks, seen from one second after the block time
Stale(lastTs, blockTime) == (lastTs ++ TwoWeeksMs) \prec (blockTime ++ OneSecondMs)
NeedNew(hasAny, last, lastTs, candidate, blockTime) ==
  ~hasAny \/ Stale(lastTs, blockTime) \/ (last # candidate /\ ShiftedFivePercent(last, candidate))

Threshold(set) == (N(2) ** Total(set)) // N(3)

\* ---- the contract's update rule (BlobstreamO.updateValidatorSet / _checkValidatorSignatures) ----
\* signed : set of slot indexes (1-based positions in prev.set) carrying a valid signature
CumPower(prevSet, signed) == NSum([i \in signed |-> prevSet[i].pow], signed)
Accepts(prev, new, nslots, signed) ==
  /\ nslots = Len(prev.set)
  /\ prev.ts \preceq new.ts
  /\ ~IsZero(new.thr)
  /\ prev.thr \preceq CumPower(prev.set, signed)
\* whenever members holding more than two thirds of the previous set's power have signed, the step is accepted
Followable(prev, new, nslots, signed) ==
  ((N(2) ** Total(prev.set)) \prec (N(3) ** CumPower(prev.set, signed))) => Accepts(prev, new, nslots, signed)
=============================================================================
