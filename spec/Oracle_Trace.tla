---------------------------- MODULE Oracle_Trace ----------------------------
(* C07 binding over recorded histories (projections oracle, reports, aggs).    *)
EXTENDS OracleSM, Json, TLC, TraceLib
CONSTANT KNOWN
Trace == ndJsonDeserialize("trace.ndjson")
VARIABLES l, viol, hist, qs, reps, aggs, cl, idx
tvars == <<l, viol, hist, qs, reps, aggs, cl, idx>>
Range(s) == { s[i] : i \in DOMAIN s }
Init == l = 1 /\ viol = {} /\ hist = 0 /\ qs = {} /\ reps = {} /\ aggs = <<>> /\ cl = <<>> /\ idx = 0

\* observed stake of the submitting reporter: bonded delegations of selectors whose lock has passed
Stake(e) == NSumSeq([i \in DOMAIN e.seltok |-> IF e.seltok[i].bonded /\ e.seltok[i].lockedn \preceq e.tn THEN e.seltok[i].tok ELSE Zero])
ReporterOk(e) == e.isrep /\ ~e.jailed /\ e.minstake \preceq Stake(e)
\* for the SUFFICIENT side only: the stake as the code counts it at the least (finding F-27: for a selector with more
\* delegations than the validator cap, bonded validators outside the staking module's by-power walk are left out)
StakeLow(e) == NSumSeq([i \in DOMAIN e.seltok |-> IF e.seltok[i].bonded /\ e.seltok[i].lockedn \preceq e.tn /\ ~(e.seltok[i].cnt > e.seltok[i].maxvals /\ ~e.seltok[i].intop) THEN e.seltok[i].tok ELSE Zero])
ReporterSurelyOk(e) == e.isrep /\ ~e.jailed /\ e.minstake \preceq StakeLow(e) /\ Pow10(6) \preceq StakeLow(e)

AggsOf(a, q) == IF q \in DOMAIN a THEN Range(a[q]) ELSE {}
AllQ(a, b) == (DOMAIN a) \cup (DOMAIN b)
NewAggs(pre, post, q) == { x \in AggsOf(post, q) : ~\E y \in AggsOf(pre, q) : y.ts = x.ts }
Key(r) == <<r.q, r.id>>

\* necessary (the property's "only if") and sufficient side of the admission guard: a reporter whose stake is below one
\* whole token has no reporting power and is turned away even when governance has set the minimum stake lower (F-26)
HasPower(e) == Pow10(6) \preceq Stake(e)
CheckSubmit(e, postqs, postreps) ==
  LET g == Admit(qs, e.q, e.kind, e.h, ReporterOk(e))
      gs == Admit(qs, e.q, e.kind, e.h, ReporterSurelyOk(e)) IN
  (IF e.ok /\ ~g THEN {"ReportAcceptedOnlyIntoOpenRound"} ELSE {})
  \cup (IF ~e.ok /\ gs /\ e.vclass = "valid" THEN {"ReportIntoOpenRoundAccepted"} ELSE {})
  \cup (IF e.ok THEN
          \* the report sits in the current round of its query, once, with the submitted value, replacing any earlier one
          LET c == Cur(postqs, e.q)
              mine == { r \in postreps : r.q = e.q /\ r.meta = c.id /\ r.rep = e.who }
          IN (IF HasCur(postqs, e.q) /\ c.rep /\ Cardinality(mine) = 1 /\ (\A r \in mine : r.h = e.h)
              THEN {} ELSE {"LaterReportReplacesEarlier"})
        ELSE (IF postqs = qs /\ postreps = reps THEN {} ELSE {"RejectedReportChangesNothing"}))

CheckTip(e, postqs) ==
  IF ~e.ok THEN (IF postqs = qs THEN {} ELSE {"RejectedTipChangesNothing"})
  ELSE LET net == TipNet(e.amt) IN
       IF ~HasCur(postqs, e.q) THEN {"TipCreatesOrExtendsRound"}
       ELSE LET c2 == Cur(postqs, e.q) IN
         IF HasCur(qs, e.q)
         THEN LET c == Cur(qs, e.q) IN
              (IF c2.id = c.id /\ c2.amt = c.amt ++ net THEN {} ELSE {"TipAddsToRound"})
              \cup (IF c.exp < e.h
                    THEN (IF c2.exp = e.h + c2.win /\ ~c2.cyc THEN {} ELSE {"TipAfterExpiryReopensWindow"})
                    ELSE (IF c2.exp = c.exp /\ c2.cyc = c.cyc THEN {} ELSE {"TipOnOpenRoundKeepsWindow"}))
         ELSE (IF c2.amt = net /\ c2.exp = e.h + c2.win /\ (\A r \in qs : r.id < c2.id) THEN {} ELSE {"TipCreatesRound"})

CheckEnd(e, postqs, postaggs, postcl, postidx) ==
  LET closing == Closing(qs, e.h)
      remaining == qs \ closing
      n == Len(cl)
      curq == IF n > 0 /\ idx < n THEN cl[idx + 1] ELSE "none"
      stillOpen == curq # "none" /\ CurStillOpen(remaining, curq, e.h)
      created == UNION { NewAggs(aggs, postaggs, q) : q \in AllQ(aggs, postaggs) }
  IN
  (IF \A r \in closing : ~(\E s \in postqs : Key(s) = Key(r)) THEN {} ELSE {"ClosedRoundDisappears"})
  \cup (IF \A r \in closing : Cardinality({ x \in NewAggs(aggs, postaggs, r.q) : x.meta = r.id }) = 1 THEN {} ELSE {"ClosedRoundAggregatesExactlyOnce"})
  \cup (IF Cardinality(created) = Cardinality(closing) THEN {} ELSE {"OnlyClosedRoundsAggregate"})
  \cup (IF \A r \in remaining : IsZero(r.amt) \/ (\E s \in postqs : Key(s) = Key(r) /\ s.amt = r.amt) THEN {} ELSE {"UnreportedTipStaysWithQuery"})
  \cup (IF \A r \in remaining : r.rep => (\E s \in postqs : Key(s) = Key(r) /\ s.rep) THEN {} ELSE {"OpenRoundWithReportsSurvives"})
  \cup (IF postcl = cl THEN {} ELSE {"CycleListChangesOnlyByGovernance"})
  \cup (IF n = 0 THEN {}
        ELSE (IF postidx = idx \/ postidx = NextIdx(idx, n) THEN {} ELSE {"RotationFollowsFixedOrder"})
             \cup (IF postidx # idx /\ stillOpen THEN {"RotationOnlyWhenCurrentWindowClosed"} ELSE {})
             \cup (IF postidx = idx /\ ~stillOpen /\ n > 1 THEN {"RotationHappensWhenCurrentWindowClosed"} ELSE {}))
  \* (a clause "the query rotated to gets an open window" was removed: the property does not demand it and the
  \*  code legitimately rotates onto a query whose zero-tip round expires in this very block - see DESIGN.md)

\* ---- conformance with the constructive model (OracleSM): the round table after the step is the one the model computes
\* from the table before it and the call's arguments.  id / window of a round the step creates are inputs of the oracle
\* module (sequencer, registry) and are read off the result.  A mismatch is reported as MODEL:<step> - model drift, not a
\* verdict about the property (the clauses above are the verdict).
IdsIn(S) == { r.id : r \in S } \cup {0}
WinsIn(S) == { r.win : r \in S } \cup {0}
SMCheck(e, postqs, postcl, postidx) ==
  \* replay of a model behaviour: the model had this action enabled, so the real chain accepts it
  (IF "sm" \in DOMAIN e /\ e.sm /\ ~e.ok THEN {"MODEL:EnabledActionRejected"} ELSE {}) \cup
  (IF "sm" \in DOMAIN e /\ ~e.sm /\ e.ok THEN {"MODEL:DisabledActionAccepted"} ELSE {}) \cup
  IF e.ev = "Tip" THEN
     (IF e.ok THEN (IF \E id \in IdsIn(postqs), w \in WinsIn(postqs) : postqs = TipNext(qs, e.h, e.q, e.amt, id, w) THEN {} ELSE {"MODEL:Tip"})
      ELSE (IF postqs = qs THEN {} ELSE {"MODEL:TipRejected"}))
  ELSE IF e.ev = "SubmitValue" THEN
     (IF ~e.ok THEN (IF postqs = qs THEN {} ELSE {"MODEL:SubmitRejected"})
      ELSE IF e.kind = "deposit" THEN (IF \E id \in IdsIn(postqs) : postqs = SubmitDepositNext(qs, e.h, e.q, id) THEN {} ELSE {"MODEL:SubmitDeposit"})
      ELSE (IF HasCur(qs, e.q) /\ postqs = SubmitNormalNext(qs, e.q) THEN {} ELSE {"MODEL:Submit"}))
  ELSE IF e.ev = "EndBlock" /\ e.ok THEN
     (IF Len(cl) = 0 \/ idx >= Len(cl) THEN {}
      ELSE IF \E id \in IdsIn(postqs), w \in WinsIn(postqs) :
                 LET res == EndNext(qs, e.h, cl, idx, id, w) IN postqs = res.qs /\ postidx = res.idx
           THEN {} ELSE {"MODEL:EndBlock"})
  ELSE IF e.ev = "UpdateCyclelist" THEN
     (IF postqs = qs /\ (e.ok => postidx = CyclelistIdxNext(idx, postcl)) /\ (~e.ok => (postidx = idx /\ postcl = cl)) THEN {} ELSE {"MODEL:UpdateCyclelist"})
  ELSE IF e.ev \in {"WithdrawTokens"} THEN {}
  ELSE (IF postqs = qs /\ postidx = idx /\ postcl = cl THEN {} ELSE {"MODEL:Other_" \o e.ev})

Check(e) ==
  SMCheck(e, Range(e.post.oracle.queries), e.post.oracle.cyclelist, e.post.oracle.cycidx) \cup
  LET postqs == Range(e.post.oracle.queries)
      postreps == Range(e.post.reports)
  IN IF e.ev = "SubmitValue" THEN CheckSubmit(e, postqs, postreps)
     ELSE IF e.ev = "Tip" THEN CheckTip(e, postqs)
     ELSE IF e.ev = "EndBlock" /\ e.ok THEN CheckEnd(e, postqs, e.post.aggs, e.post.oracle.cyclelist, e.post.oracle.cycidx)
     ELSE IF e.ev \in {"UpdateCyclelist", "UpdateDataSpec", "WithdrawTokens", "ProposeDispute", "AddFeeToDispute", "AddEvidence"} THEN {}
     ELSE (IF postqs = qs /\ e.post.oracle.cycidx = idx /\ e.post.oracle.cyclelist = cl THEN {} ELSE {"OtherOperationsLeaveRoundsAlone_" \o e.ev})

Step ==
  /\ l <= Len(Trace)
  /\ LET e == Trace[l]
         reset == e.hist # hist
     IN /\ hist' = e.hist
        /\ qs' = Range(e.post.oracle.queries) /\ reps' = Range(e.post.reports) /\ aggs' = e.post.aggs
        /\ cl' = e.post.oracle.cyclelist /\ idx' = e.post.oracle.cycidx
        /\ viol' = IF reset THEN viol ELSE AddViol(viol, l, Check(e))
        /\ l' = l + 1
Spec == Init /\ [][Step]_tvars
Done == (l = Len(Trace) + 1) => PrintT(<<"VIOLS", ToJson(viol)>>)
Accepted == TLCGet("stats").diameter - 1 = Len(Trace)
=============================================================================
