----------------------------- MODULE Valset_MC -----------------------------
(* Design level: for all staking histories within small bounds (3 operators,  *)
(* tokens 0..MaxTok with EVM registration at any step, time steps around the   *)
(* two-week boundary) the end-block rule (new checkpoint iff NeedNew; set =    *)
(* registered non-zero validators; slots sized from the previous set; sigs by  *)
(* previous-set position) yields a chain in which every consecutive pair is    *)
(* Followable for EVERY signer subset, provided total power >= 2.              *)
EXTENDS Valset, TLC
CONSTANTS Ops, MaxTok, Steps, MaxCps, AgeCap
VARIABLES tok, reg, cps, cur, now, hasAny
mvars == <<tok, reg, cps, cur, now, hasAny>>
Addr(o) == << CHOOSE i \in 1 .. 9 : o = <<"v1", "v2", "v3", "v4">>[i] >>
ValsOf == [ i \in 1 .. Cardinality(Ops) |->
            LET o == (CHOOSE f \in [1 .. Cardinality(Ops) -> Ops] : \A a, b \in 1 .. Cardinality(Ops) : a # b => f[a] # f[b])[i]
            IN [op |-> o, pow |-> tok[o], evm |-> Addr(o), registered |-> reg[o]] ]
RECURSIVE SortSet(_)
SortSet(S) == IF S = {} THEN <<>>
              ELSE LET m == CHOOSE x \in S : \A y \in S : y = x \/ x.pow > y.pow \/ (x.pow = y.pow /\ LexLess(x.evm, y.evm))
                   IN <<m>> \o SortSet(S \ {m})
Candidate == SortSet(Members(ValsOf))
TotalTok == LET S == Ops IN NSum([o \in S |-> IF reg[o] THEN tok[o] ELSE 0], S)
\* The property relates CONSECUTIVE checkpoints, so the model explores every way from an arbitrary first
\* checkpoint (any registered stake distribution with total >= 2) to the next one: per block at most one
\* operator's stake changes and at most one operator registers, then the end-block rule runs.
Init == /\ tok \in [Ops -> 0 .. MaxTok] /\ reg \in [Ops -> BOOLEAN]
        /\ TotalTok >= 2
        /\ cps = << [ts |-> 0, thr |-> Threshold(Candidate), set |-> Candidate, nslots |-> Len(Candidate)] >>
        /\ cur = Candidate /\ now = 0 /\ hasAny = TRUE
Block == \E o \in Ops, t \in 0 .. MaxTok, r \in Ops \cup {"nobody"}, dt \in Steps :
  /\ Len(cps) < MaxCps
  /\ tok' = [tok EXCEPT ![o] = t]
  /\ reg' = [x \in Ops |-> reg[x] \/ x = r]
  /\ now' = IF now + dt > AgeCap THEN AgeCap ELSE now + dt
  /\ LET vals2 == [ i \in 1 .. Cardinality(Ops) |->
                    LET oo == (CHOOSE f \in [1 .. Cardinality(Ops) -> Ops] : \A a, b \in 1 .. Cardinality(Ops) : a # b => f[a] # f[b])[i]
                    IN [op |-> oo, pow |-> tok'[oo], evm |-> Addr(oo), registered |-> reg'[oo]] ]
         cand == SortSet(Members(vals2))
         tot2 == NSum([x \in Ops |-> IF reg'[x] THEN tok'[x] ELSE 0], Ops)
         lastTs == cps[Len(cps)].ts
     IN /\ tot2 >= 2
        /\ IF NeedNew(hasAny, cur, lastTs, cand, now')
           THEN /\ cps' = Append(cps, [ts |-> now', thr |-> Threshold(cand), set |-> cand, nslots |-> Len(cps[Len(cps)].set)])
                /\ cur' = cand
           ELSE UNCHANGED <<cps, cur>>
  /\ UNCHANGED hasAny
Next == Block
Spec == Init /\ [][Next]_mvars
ChainFollowable ==
  \A i \in 2 .. Len(cps) : \A signed \in SUBSET (1 .. Len(cps[i - 1].set)) :
     Followable(cps[i - 1], cps[i], cps[i].nslots, signed)
ChainShape ==
  /\ \A i \in 2 .. Len(cps) : cps[i - 1].ts < cps[i].ts
  /\ \A i \in DOMAIN cps : Ordered(cps[i].set) /\ cps[i].thr = Threshold(cps[i].set)
Bound == TRUE
MCTwoWeeks == 14
MCOneSecond == 1
=============================================================================
