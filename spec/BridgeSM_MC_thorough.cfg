SPECIFICATION Spec
CONSTANTS
  Ids = {1, 2}
  Accts = {"a", "b"}
  Claimers = {"a"}
  Rcpts = {"b"}
  Powers = {1, 3}
  Thrs = {2, 4}
  Amounts = {2}
  Tips = {0, 3}
  Steps = {1, 43199999}
  MaxTicks = 3
  MaxAggs = 3
  MaxCps = 2
  MaxWd = 1
  E12 <- MC_E12
INVARIANTS MintedAtMostOncePerDeposit MintedOnlyFromQualifiedAggregates SupplyIsMintsMinusBurns WithdrawalsPublishedOncePerId ClaimedIsWhatWasMinted
PROPERTIES NeverFromAFlaggedAggregate ThresholdAtReportTimeIsStable ClaimedOnlyGrows
CHECK_DEADLOCK FALSE
