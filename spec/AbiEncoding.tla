----------------------------- MODULE AbiEncoding -----------------------------
(* C15: Solidity abi.encode layouts, written from the ABI specification, of    *)
(* exactly the expressions the bridge contracts hash:                           *)
(*   BlobstreamO.sol   keccak256(abi.encode(Validator[]))                       *)
(*                     keccak256(abi.encode(VALIDATOR_SET_HASH_DOMAIN_SEPARATOR,*)
(*                               powerThreshold, validatorTimestamp, valsetHash))*)
(*                     keccak256(abi.encode(NEW_REPORT_ATTESTATION_DOMAIN_SEP., *)
(*                               queryId, value, timestamp, aggregatePower,      *)
(*                               previousTimestamp, nextTimestamp, checkpoint,   *)
(*                               attestationTimestamp))                          *)
(*   TokenBridge.sol   keccak256(abi.encode("TRBBridge", abi.encode(bool,id)))   *)
(*                     abi.decode(value, (address, string, uint256, uint256))    *)
(* Data are sequences of bytes (0..255); integers are given as big-endian byte   *)
(* strings, so 2^64-1 and 20-byte addresses are ordinary data.                   *)
EXTENDS Integers, Sequences

Zeros(n) == [i \in 1 .. n |-> 0]
\* left-pad a big-endian integer / address (<= 32 bytes) to one 32-byte word
Word(b) == Zeros(32 - Len(b)) \o b
\* right-pad bytesN (<= 32 bytes) to one word
Bytes32(b) == b \o Zeros(32 - Len(b))
\* a small non-negative integer as a word
RECURSIVE BE(_)
BE(n) == IF n = 0 THEN <<>> ELSE BE(n \div 256) \o <<n % 256>>
WordOf(n) == Word(BE(n))
\* dynamic bytes / string tail: length word, then the data right-padded to a multiple of 32 bytes
PadTo32(b) == b \o Zeros((32 - (Len(b) % 32)) % 32)
DynTail(b) == WordOf(Len(b)) \o PadTo32(b)
RECURSIVE Concat(_)
Concat(ss) == IF ss = <<>> THEN <<>> ELSE Head(ss) \o Concat(Tail(ss))

\* ASCII
TRBBridge == <<84, 82, 66, 66, 114, 105, 100, 103, 101>>                      \* "TRBBridge"
CheckpointSep == Bytes32(<<99, 104, 101, 99, 107, 112, 111, 105, 110, 116>>)  \* "checkpoint"
\* NEW_REPORT_ATTESTATION_DOMAIN_SEPARATOR of Constants.sol ("tellorCurrentAttestation")
AttestSep == Bytes32(<<116, 101, 108, 108, 111, 114, 67, 117, 114, 114, 101, 110, 116, 65, 116, 116, 101, 115, 116, 97, 116, 105, 111, 110>>)

\* abi.encode(Validator[]) with Validator = (address addr, uint256 power): one dynamic argument
\* head = offset 0x20; tail = length, then each element as two words (static tuple)
ValsetPre(vs) == WordOf(32) \o WordOf(Len(vs)) \o Concat([i \in DOMAIN vs |-> Word(vs[i].addr) \o Word(vs[i].power)])

\* abi.encode(bytes32, uint256, uint256, bytes32)
CheckpointPre(thr, ts, valsetHash) == CheckpointSep \o Word(thr) \o Word(ts) \o Bytes32(valsetHash)

\* abi.encode(bytes32, bytes32, bytes, uint256, uint256, uint256, uint256, bytes32, uint256): 9 head words, value in the tail
AttestPre(qid, value, ts, power, prev, next, checkpoint, attTs) ==
  AttestSep \o Bytes32(qid) \o WordOf(9 * 32) \o Word(ts) \o Word(power) \o Word(prev) \o Word(next) \o Bytes32(checkpoint) \o Word(attTs)
  \o DynTail(value)

\* abi.encode(string "TRBBridge", bytes abi.encode(bool toLayer, uint256 id))
QueryDataPre(toLayer, id) ==
  LET inner == WordOf(IF toLayer THEN 1 ELSE 0) \o Word(id)
      t1 == DynTail(TRBBridge)
  IN WordOf(64) \o WordOf(64 + Len(t1)) \o t1 \o DynTail(inner)

\* abi.encode(address recipient, string layerSender, uint256 amount, uint256 tip = 0)
WithdrawValuePre(rcpt, sender, amount) == Word(rcpt) \o WordOf(4 * 32) \o Word(amount) \o WordOf(0) \o DynTail(sender)
=============================================================================
