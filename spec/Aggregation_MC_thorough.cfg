INIT Init
NEXT Next
CONSTANTS
  MaxN = 4
  Pw = {1, 2, 3}
  Vals = {1, 2, 3}
INVARIANTS Thm Emit
CHECK_DEADLOCK FALSE
