----------------------------- MODULE PriceCache -----------------------------
(* C20: the price daemon's cache (daemons/server/types/pricefeed).             *)
(*   px : <<market, exchange>> -> [t, p]   latest price per exchange and market *)
(* Two atomic operations (the real code holds one mutex around each):           *)
(*   Update(batch)   per entry, in order: replace iff strictly newer            *)
(*   Read(params, readT, maxAge)  per market: median of the prices whose update *)
(*                   time is >= readT - maxAge, iff at least max(minEx,1) fresh *)
(* Times are ms as Num; prices are full-range uint64 as Num.                     *)
EXTENDS Num, Integers, Sequences, FiniteSets

Range(s) == { s[i] : i \in DOMAIN s }

\* ---------- median of a non-empty sequence of Num (definition by rank) ----------
CountLt(s, v) == Cardinality({ i \in DOMAIN s : s[i] \prec v })
CountLe(s, v) == Cardinality({ i \in DOMAIN s : s[i] \preceq v })
\* k-th smallest (1-based, with multiplicity)
Kth(s, k) == CHOOSE v \in Range(s) : CountLt(s, v) < k /\ k <= CountLe(s, v)
\* even count: mean of the two middle values rounded AWAY from zero (= up, for unsigned), never overflowing
Median(s) == LET n == Len(s) IN
             IF n % 2 = 1 THEN Kth(s, (n + 1) \div 2)
             ELSE (Kth(s, n \div 2) ++ Kth(s, n \div 2 + 1) ++ One) // N(2)

\* signed variant on [neg, mag] records: result also [neg, mag]; away from zero on the magnitude of the sum
SLess(a, b) == IF a.neg /\ ~b.neg THEN ~(IsZero(a.mag) /\ IsZero(b.mag))
               ELSE IF ~a.neg /\ b.neg THEN FALSE
               ELSE IF a.neg THEN b.mag \prec a.mag ELSE a.mag \prec b.mag
SEq(a, b) == (a.mag = b.mag) /\ (a.neg = b.neg \/ IsZero(a.mag))
SCountLt(s, v) == Cardinality({ i \in DOMAIN s : SLess(s[i], v) })
SCountLe(s, v) == Cardinality({ i \in DOMAIN s : SLess(s[i], v) \/ SEq(s[i], v) })
SKth(s, k) == CHOOSE v \in Range(s) : SCountLt(s, v) < k /\ k <= SCountLe(s, v)
SMean(x, y) ==   \* x <= y
  IF ~x.neg /\ ~y.neg THEN [neg |-> FALSE, mag |-> (x.mag ++ y.mag ++ One) // N(2)]
  ELSE IF x.neg /\ y.neg THEN [neg |-> TRUE, mag |-> (x.mag ++ y.mag ++ One) // N(2)]
  ELSE \* x < 0 <= y : sum = y.mag - x.mag
       IF x.mag \preceq y.mag THEN [neg |-> FALSE, mag |-> ((y.mag -- x.mag) ++ One) // N(2)]
       ELSE [neg |-> TRUE, mag |-> ((x.mag -- y.mag) ++ One) // N(2)]
SMedian(s) == LET n == Len(s) IN
              IF n % 2 = 1 THEN SKth(s, (n + 1) \div 2)
              ELSE SMean(SKth(s, n \div 2), SKth(s, n \div 2 + 1))

\* ---------- the cache ----------
\* apply one entry u = [m, e, t, p] to px
Apply1(px, u) == LET k == <<u.m, u.e>> IN
                 IF k \in DOMAIN px /\ ~(px[k].t \prec u.t) THEN px
                 ELSE [x \in (DOMAIN px) \cup {k} |-> IF x = k THEN [t |-> u.t, p |-> u.p] ELSE px[x]]
RECURSIVE ApplyBatch(_, _)
ApplyBatch(px, us) == IF us = <<>> THEN px ELSE ApplyBatch(Apply1(px, Head(us)), Tail(us))

Markets(px) == { k[1] : k \in DOMAIN px }
\* fresh prices of market m (as a sequence, any order: the median does not depend on it)
FreshKeys(px, m, cutoff) == { k \in DOMAIN px : k[1] = m /\ cutoff \preceq px[k].t }
RECURSIVE SeqOf(_, _)
SeqOf(px, K) == IF K = {} THEN <<>> ELSE LET k == CHOOSE x \in K : TRUE IN <<px[k].p>> \o SeqOf(px, K \ {k})
\* result of a read: set of [m, p] pairs; param = [m, minex]; cutoff = readT - maxAge (saturating at 0)
ReadResult(px, params, cutoff) ==
  { [m |-> params[i].m, p |-> Median(SeqOf(px, FreshKeys(px, params[i].m, cutoff)))] :
      i \in { j \in DOMAIN params : LET F == FreshKeys(px, params[j].m, cutoff) IN
                                      Cardinality(F) >= params[j].minex /\ Cardinality(F) >= 1 } }
\* an exchange's stored price only moves forward in update time
TimesMonotone(px, px2) == \A k \in DOMAIN px : k \in DOMAIN px2 /\ px[k].t \preceq px2[k].t
=============================================================================
