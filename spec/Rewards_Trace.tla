---------------------------- MODULE Rewards_Trace ----------------------------
(* C09 binding: around every end-block of recorded histories the closing rounds *)
(* (inputs: reports, powers, commission rates, recorded stake snapshots, tips,   *)
(* reward-pool balance) and the selectors' credit records before/after are        *)
(* logged; TLC recomputes the exact split and compares.                           *)
EXTENDS Rewards, Json, TLC, TraceLib
CONSTANT KNOWN
Trace == ndJsonDeserialize("trace.ndjson")
VARIABLES l, viol, hist, tips
tvars == <<l, viol, hist, tips>>
Init == l = 1 /\ viol = {} /\ hist = 0 /\ tips = <<>>

SLe(a, b) == IF a.neg /\ ~b.neg THEN TRUE ELSE IF ~a.neg /\ b.neg THEN IsZero(a.mag) /\ IsZero(b.mag)
             ELSE IF a.neg THEN b.mag \preceq a.mag ELSE a.mag \preceq b.mag
Mag18(t, s) == IF s \in DOMAIN t THEN t[s] ELSE [neg |-> FALSE, mag |-> Zero]
\* payouts of this end-block: one per tipped closing round, plus one time-based payout over the cycle-list / deposit rounds
TipPayouts(cl) == { i \in DOMAIN cl : ~IsZero(cl[i].amt) }
\* as sequences of aggregates
AsAggs(cl, I) == LET RECURSIVE F(_) F(S) == IF S = {} THEN <<>> ELSE LET i == CHOOSE x \in S : \A y \in S : x <= y IN <<cl[i].reports>> \o F(S \ {i}) IN F(I)

BadRate(c) == c.neg \/ (E18 \prec c.mag)
AnyBadRate(cl) == \E i \in DOMAIN cl : \E j \in DOMAIN cl[i].reports : BadRate(cl[i].reports[j].comm)
Dev_F12(cl) == "F-12" \in KNOWN /\ AnyBadRate(cl)
\* Dev_F08: a reporter appears in two rewarded aggregates of one payout with different powers
MultiPower(aggs) == \E r \in Reporters(aggs) : Cardinality({ aggs[x[1]][x[2]].pow : x \in { y \in Idx(aggs) : aggs[y[1]][y[2]].rep = r } }) > 1
Dev_F08(aggs) == "F-08" \in KNOWN /\ MultiPower(aggs)

\* expected credit of selector s over all payouts, minimum and maximum over the admissible snapshots
\* expected total for s from one payout, given for every reporter WHICH of its recorded stake snapshots divides its part
\* (a reporter with several reports in one payout has several; its whole part is divided by one of them - the code takes
\* the first report's - which is how "the stake recorded when the report was made" is read for that case)
ExpectedWith(R, aggs, s, f) ==
  LET Rs == Reporters(aggs) IN
  NSum([r \in Rs |-> LET snap == f[r]
                         rate == aggs[RateOf(aggs, r)[1]][RateOf(aggs, r)[2]].comm.mag
                     IN IF IsZero(snap.total.mag) THEN Zero ELSE Expected24(R, aggs, r, snap, rate, s)], Rs)
Assignments(aggs) == { f \in [Reporters(aggs) -> UNION { Snapshots(aggs, r) : r \in Reporters(aggs) }] : \A r \in Reporters(aggs) : f[r] \in Snapshots(aggs, r) }
AnyAssignment(aggs) == [r \in Reporters(aggs) |-> CHOOSE sn \in Snapshots(aggs, r) : TRUE]
ExpectedSet(R, aggs, s) == ExpectedWith(R, aggs, s, AnyAssignment(aggs))

\* rounds whose aggregate is a cycle-list / bridge-deposit aggregate: decided per report at submission time
\* (the report was made while the query was the scheduled cycle-list query or is a bridge deposit)
AllCyc(cl) == { i \in DOMAIN cl : \A j \in DOMAIN cl[i].reports : cl[i].reports[j].cyc }
SomeCyc(cl) == { i \in DOMAIN cl : \E j \in DOMAIN cl[i].reports : cl[i].reports[j].cyc }
TbrCandidates(cl) == { AllCyc(cl) \cup X : X \in SUBSET (SomeCyc(cl) \ AllCyc(cl)) }

Matches(e, tbrI) ==
  \* set of violated clause names when the time-based reward goes to the rounds tbrI
  LET cl == e.closing
      post == e.post.reporter.tips
      S == (DOMAIN tips) \cup (DOMAIN post)
      tipP == TipPayouts(cl)
      tbrPaid == tbrI # {} /\ ~IsZero(e.tbrpre)
      tbrAggs == AsAggs(cl, tbrI)
      exp(s, f) == NSum([i \in tipP |-> ExpectedSet(cl[i].amt, AsAggs(cl, {i}), s)], tipP)
                   ++ (IF tbrPaid THEN ExpectedWith(e.tbrpre, tbrAggs, s, f) ELSE Zero)
      Fs == IF tbrPaid THEN Assignments(tbrAggs) ELSE {<<>>}
      delta18(s) == IF Mag18(post, s).neg \/ Mag18(tips, s).neg THEN Zero ELSE Monus(Mag18(post, s).mag, Mag18(tips, s).mag)
      totalR == NSum([i \in tipP |-> cl[i].amt], tipP) ++ (IF tbrPaid THEN e.tbrpre ELSE Zero)
      nent == Cardinality(S) + 2
      \* tolerance: 10^-18 per credit entry, plus the precision of 18-decimal intermediate ratios, which is
      \* relative to the reward (power/total is rounded to 18 decimals before it is multiplied by the reward):
      \* 10^-15 of the total reward
      tol24(k) == (N(4 * k + 4) ** E6) ++ (totalR ** Pow10(9))
  IN
  (IF cl = <<>> \/ (\E s \in S : Mag18(post, s).neg \/ Mag18(tips, s).neg) THEN {}
   ELSE (IF Within(NSum([s \in S |-> delta18(s)], S) ** E6, totalR ** E24, tol24(4 * nent)) THEN {} ELSE {"CreditsSumToTheReward"})
        \cup (IF \E f \in Fs : \A s \in S : Within(delta18(s) ** E6, exp(s, f), tol24(nent)) THEN {} ELSE {"ShareProportionalToPowerAndStakeCommissionOnce"}))
  \cup (IF tbrPaid /\ ~IsZero(e.tbrpost) THEN {"TimeBasedRewardUsesWholePool"} ELSE {})
  \cup (IF ~tbrPaid /\ e.tbrpost # e.tbrpre THEN {"TimeBasedRewardOnlyForCycleListAndDepositAggregates"} ELSE {})

CheckEnd(e) ==
  LET cl == e.closing
      post == e.post.reporter.tips
      S == (DOMAIN tips) \cup (DOMAIN post)
      cands == TbrCandidates(cl)
      known == IF Dev_F12(cl) THEN "KNOWN:F-12" ELSE IF \E T \in cands : T # {} /\ Dev_F08(AsAggs(cl, T)) THEN "KNOWN:F-08" ELSE "none"
      name(n) == IF known = "none" THEN n ELSE known
      best == IF \E T \in cands : Matches(e, T) = {} THEN {} ELSE Matches(e, CHOOSE T \in cands : TRUE)
  IN
  \* every amount credited in this end-block is non-negative: no selector's record goes down
  (IF \A s \in S : SLe(Mag18(tips, s), Mag18(post, s)) THEN {} ELSE {name("EveryCreditIsNonNegative")})
  \cup { name(c) : c \in best }

Step ==
  /\ l <= Len(Trace)
  /\ LET e == Trace[l]
         reset == e.hist # hist
     IN /\ hist' = e.hist
        /\ tips' = e.post.reporter.tips
        /\ viol' = IF reset \/ ~(e.ev = "EndBlock" /\ e.ok) THEN viol ELSE AddViol(viol, l, CheckEnd(e))
        /\ l' = l + 1
Spec == Init /\ [][Step]_tvars
Done == (l = Len(Trace) + 1) => PrintT(<<"VIOLS", ToJson(viol)>>)
Accepted == TLCGet("stats").diameter - 1 = Len(Trace)
=============================================================================
