------------------------------ MODULE AggHist ------------------------------
(* C08: aggregate history is append-only, time-ordered and correctly            *)
(* retrievable.  The history of one query is a sequence of records              *)
(*   [ts, nonce, flag, val, pow, rep, mh, h, ...]  in chronological order.      *)
(* The lookups are operators on that sequence (the list semantics the property  *)
(* states), independent of how the store is walked.                              *)
EXTENDS Num, Integers, Sequences, FiniteSets

\* ---- shape ----
Chronological(s) == \A i \in 1 .. Len(s) - 1 : s[i].ts \prec s[i + 1].ts
NoncesCount(s) == \A i \in DOMAIN s : s[i].nonce = i
\* s2 extends s1: every old entry is still there, unchanged except that flag may go FALSE -> TRUE
SameButFlag(a, b) == [x \in (DOMAIN a) \ {"flag"} |-> a[x]] = [x \in (DOMAIN b) \ {"flag"} |-> b[x]] /\ (a.flag => b.flag)
Extends(s1, s2) == /\ Len(s1) <= Len(s2)
                   /\ \A i \in DOMAIN s1 : SameButFlag(s1[i], s2[i])
NewlyFlagged(s1, s2) == { i \in DOMAIN s1 : ~s1[i].flag /\ s2[i].flag }

\* ---- lookups (NONE = no answer) ----
NONE == [none |-> TRUE]
Ans(r) == [none |-> FALSE, ts |-> r.ts, val |-> r.val]
Current(s) == IF s = <<>> THEN NONE ELSE Ans(s[Len(s)])
\* latest unflagged entry strictly before T
Before(s, T) == LET I == { i \in DOMAIN s : s[i].ts \prec T /\ ~s[i].flag } IN
                IF I = {} THEN NONE ELSE Ans(s[CHOOSE i \in I : \A j \in I : j <= i])
\* 0-based position
ByIndex(s, i) == IF i >= 0 /\ i + 1 <= Len(s) THEN Ans(s[i + 1]) ELSE NONE
TsBefore(s, T) == LET I == { i \in DOMAIN s : s[i].ts \prec T } IN
                  IF I = {} THEN NONE ELSE [none |-> FALSE, ts |-> s[CHOOSE i \in I : \A j \in I : j <= i].ts]
TsAfter(s, T) == LET I == { i \in DOMAIN s : T \prec s[i].ts } IN
                 IF I = {} THEN NONE ELSE [none |-> FALSE, ts |-> s[CHOOSE i \in I : \A j \in I : i <= j].ts]
\* neighbours of the entry with timestamp ts (Zero = none), as placed in a bridge attestation snapshot
Prev(s, ts) == LET r == TsBefore(s, ts) IN IF r.none THEN Zero ELSE r.ts
Next(s, ts) == LET r == TsAfter(s, ts) IN IF r.none THEN Zero ELSE r.ts
=============================================================================
