------------------------------- MODULE VoteExt -------------------------------
(* C17: vote-extension data reaches state only as signed; proposals stay        *)
(* coherent.  An extended commit is a sequence (consensus order: power desc,    *)
(* address asc) of votes [val, flag, shape, power]; flag in commit / absent /   *)
(* nil; shape names what the validator's (signed) vote extension carries:       *)
(*   empty garbage trunc            not JSON                                    *)
(*   jsonempty                      JSON object with every field zero           *)
(*   jsonbare                       the JSON object {} (every key omitted)      *)
(*   valsetonly attonly             like valset / att1, all other keys omitted  *)
(*   initgood init65 all            both initial signatures by the validator's  *)
(*                                  own EVM key (init65: 65-byte signatures)    *)
(*   initshort initshortb           one initial signature shorter than 64 bytes *)
(*   initmismatch                   signatures A and B by different keys        *)
(*   valset valsetwrongts all       a validator-set signature (+ its timestamp) *)
(*   att1 att2dup attforeign all    oracle attestations (snapshot s1 / s1 twice / *)
(*                                  unknown snapshot / s2 then s1)              *)
EXTENDS Integers, Sequences, FiniteSets

InitGood == {"initgood", "init65", "all"}
ValsetShapes == {"valset", "valsetwrongts", "valsetonly", "all"}
AttsOf(shape) == IF shape \in {"att1", "attonly"} THEN <<"s1">> ELSE IF shape = "att2dup" THEN <<"s1", "s1">>
                 ELSE IF shape = "attforeign" THEN <<"foreign">> ELSE IF shape = "all" THEN <<"s2", "s1">> ELSE <<>>
\* snapshots for which the extension carries a NON-EMPTY attestation signature (an empty one leaves the slot empty)
FillsOf(shape) == IF shape \in {"att1", "attonly"} THEN {"s1"} ELSE IF shape = "att2dup" THEN {"s1"} ELSE IF shape = "all" THEN {"s2"} ELSE {}
Committed(c) == { i \in DOMAIN c : c[i].flag = "commit" }
RECURSIVE SelectIdx(_, _, _)
SelectIdx(c, P(_), i) == IF i > Len(c) THEN <<>> ELSE (IF P(c[i]) THEN <<i>> ELSE <<>>) \o SelectIdx(c, P, i + 1)

\* what the commit's vote extensions contain, in commit order
RegIdx(c, hasevm) == SelectIdx(c, LAMBDA v : v.flag = "commit" /\ v.shape \in InitGood /\ ~hasevm[v.val], 1)
Regs(c, hasevm) == [k \in DOMAIN RegIdx(c, hasevm) |-> c[RegIdx(c, hasevm)[k]].val]
VsIdx(c) == SelectIdx(c, LAMBDA v : v.flag = "commit" /\ v.shape \in ValsetShapes, 1)
VsOps(c) == [k \in DOMAIN VsIdx(c) |-> c[VsIdx(c)[k]].val]
RECURSIVE AttOpsFrom(_, _)
AttOpsFrom(c, i) == IF i > Len(c) THEN <<>>
                    ELSE (IF c[i].flag = "commit" THEN [k \in DOMAIN AttsOf(c[i].shape) |-> c[i].val] ELSE <<>>) \o AttOpsFrom(c, i + 1)
RECURSIVE AttSnapsFrom(_, _)
AttSnapsFrom(c, i) == IF i > Len(c) THEN <<>>
                      ELSE (IF c[i].flag = "commit" THEN AttsOf(c[i].shape) ELSE <<>>) \o AttSnapsFrom(c, i + 1)

\* a commit is valid when the commit votes carry more than two thirds of the voting power (all extensions are
\* properly signed by construction)
RECURSIVE SumPow(_, _)
SumPow(c, S) == IF S = {} THEN 0 ELSE LET i == CHOOSE x \in S : TRUE IN c[i].power + SumPow(c, S \ {i})
ValidCommit(c) == SumPow(c, Committed(c)) >= ((SumPow(c, DOMAIN c) * 2) \div 3) + 1
=============================================================================
