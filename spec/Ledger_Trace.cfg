SPECIFICATION Spec
CONSTANTS
  KNOWN = {}
  Rate <- RateV
  MsPerDay <- MsPerDayV
  NsPerMs <- NsPerMsV
INVARIANT Done
POSTCONDITION Accepted
CHECK_DEADLOCK FALSE
