SPECIFICATION Spec
CONSTANTS
  KNOWN = {}
  Rate <- RateV
  MsPerDay <- MsPerDayV
INVARIANT Done
POSTCONDITION Accepted
CHECK_DEADLOCK FALSE
