SPECIFICATION Spec
CONSTANTS
  Queries = {"q1"}
  Reps = {"r1", "r2"}
  Sels = {"s1", "s2"}
  Powers = {1, 2, 3}
  Rates = {0, 5, 10}
  Stakes = {1, 2, 3}
  TipAmounts = {7, 49, 100, 33}
  MaxTips = 2
  MaxPayouts = 1
  E24 <- MC_E24
  E18 <- MC_E18
INVARIANTS OracleAccountEqualsOpenTips EscrowPoolCoversCredits NothingLost LastPayoutSplitsExactly
CHECK_DEADLOCK FALSE
