---------------------------- MODULE DisputeSM_Sim ----------------------------
(* Behaviours of the dispute life-cycle model as test sequences (see           *)
(* OracleSM_Sim): the actions of DisputeSM_MC with a history variable; under    *)
(* `tlc -simulate` every behaviour of depth D is printed as a JSON array of     *)
(* actions [op, hash, fee | id, amt | who, id, choice | dt (half-days)].        *)
EXTENDS DisputeSM_MC, Json
CONSTANT D
VARIABLE hist
svars == <<vars, hist>>
SimInit == Init /\ hist = <<>>
SimNext ==
  \/ \E h \in Hashes, f \in Fees : Propose(h, f) /\ hist' = Append(hist, [op |-> "Propose", hash |-> h, fee |-> f])
  \/ \E d \in ds, a \in Fees : AddFee(d.id, a) /\ hist' = Append(hist, [op |-> "AddFee", id |-> d.id, amt |-> a])
  \/ \E v \in Voters, d \in ds, c \in 1 .. 3 : Vote(v, d.id, c) /\ hist' = Append(hist, [op |-> "Vote", who |-> v, id |-> d.id, choice |-> c])
  \/ \E dt \in Gaps : Begin(dt) /\ hist' = Append(hist, [op |-> "Begin", dt |-> dt])
SimSpec == SimInit /\ [][SimNext]_svars
Emit == Len(hist) # D \/ PrintT(<<"CASE", ToJson(hist)>>)
=============================================================================
