---------------------------- MODULE DisputeSM_Sim ----------------------------
(* Behaviours of the dispute life-cycle model as test sequences (see           *)
(* OracleSM_Sim): the actions of DisputeSM_MC with a history variable; under    *)
(* `tlc -simulate` every behaviour of depth D is printed as a JSON array of     *)
(* actions [op, hash, fee | id, amt | who, id, choice | dt (half-days)].        *)
EXTENDS DisputeSM_MC, Json
CONSTANT D
VARIABLES hist, nb, np
svars == <<vars, hist, nb, np>>
\* at most two begin-blocks in a row (keeps messages frequent in generated behaviours)
SimInit == Init /\ hist = <<>> /\ nb = 0 /\ np = 0
MsgEnabled == \/ \E h \in Hashes, f \in Fees : nextId <= MaxId /\ ProposeOk(ds, now, h, f)
              \/ \E d \in ds, a \in Fees : AddFeeOk(d, now, a)
              \/ \E v \in Voters, d \in ds : VoteOk(d, now) /\ v \notin DOMAIN CastOf(d.id)
\* messages the model has DISABLED are replayed too (at most MaxProbes per behaviour): the model's table does not change,
\* the real chain must reject them - if it accepts one, the property clauses of the trace spec see the effect
MaxProbes == 4
Probe(a) == np < MaxProbes /\ np' = np + 1 /\ nb' = 0 /\ UNCHANGED vars /\ hist' = Append(hist, a)
SimNext ==
  \/ np' = np /\ nb' = 0 /\ \E h \in Hashes, f \in Fees : Propose(h, f) /\ hist' = Append(hist, [op |-> "Propose", hash |-> h, fee |-> f])
  \/ np' = np /\ nb' = 0 /\ \E d \in ds, a \in Fees : AddFee(d.id, a) /\ hist' = Append(hist, [op |-> "AddFee", id |-> d.id, amt |-> a])
  \/ np' = np /\ nb' = 0 /\ \E v \in Voters, d \in ds, c \in 1 .. 3 : Vote(v, d.id, c) /\ hist' = Append(hist, [op |-> "Vote", who |-> v, id |-> d.id, choice |-> c])
  \/ np' = np /\ (nb < 2 \/ ~MsgEnabled) /\ nb' = nb + 1 /\ \E dt \in Gaps : Begin(dt) /\ hist' = Append(hist, [op |-> "Begin", dt |-> dt])
  \/ \E h \in Hashes, f \in Fees : ~ProposeOk(ds, now, h, f) /\ Probe([op |-> "Propose", hash |-> h, fee |-> f])
  \/ \E d \in ds, a \in Fees : ~AddFeeOk(d, now, a) /\ Probe([op |-> "AddFee", id |-> d.id, amt |-> a])
  \/ \E v \in Voters, d \in ds, c \in 1 .. 3 : ~(VoteOk(d, now) /\ v \notin DOMAIN CastOf(d.id)) /\ Probe([op |-> "Vote", who |-> v, id |-> d.id, choice |-> c])
SimSpec == SimInit /\ [][SimNext]_svars
Emit == Len(hist) \notin {D \div 2, D} \/ PrintT(<<"CASE", ToJson(hist)>>)
=============================================================================
