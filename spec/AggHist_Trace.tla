--------------------------- MODULE AggHist_Trace ---------------------------
(* C08 binding over recorded histories (projection aggs + Probe events).      *)
EXTENDS AggHist, Json, TLC, TraceLib
CONSTANT KNOWN
Trace == ndJsonDeserialize("trace.ndjson")
VARIABLES l, viol, hist, aggs, disp
tvars == <<l, viol, hist, aggs, disp>>
Init == l = 1 /\ viol = {} /\ hist = 0 /\ aggs = <<>> /\ disp = <<>>
Of(a, q) == IF q \in DOMAIN a THEN a[q] ELSE <<>>
DisputeEvents == {"ProposeDispute", "AddFeeToDispute", "AddEvidence"}

CheckHistory(e, post) ==
  LET Q == (DOMAIN aggs) \cup (DOMAIN post) IN
  (IF \A q \in Q : Extends(Of(aggs, q), Of(post, q)) THEN {} ELSE {"StoredAggregatesNeverAlteredOrRemoved"})
  \cup (IF \A q \in DOMAIN post : Chronological(post[q]) THEN {} ELSE {"TimestampsStrictlyIncrease"})
  \cup (IF \A q \in DOMAIN post : NoncesCount(post[q]) THEN {} ELSE {"SequenceNumbersIncreaseByOne"})
  \cup (IF \A q \in DOMAIN aggs : q \in DOMAIN post /\ Len(post[q]) >= Len(aggs[q]) /\ (NewlyFlagged(aggs[q], post[q]) # {} => e.ev \in DisputeEvents)
        THEN {} ELSE {"FlagOnlyThroughDispute"})
  \cup (IF e.ev \in {"ProposeDispute", "AddFeeToDispute", "AddEvidence"} /\ e.ok
        THEN (IF \A q \in DOMAIN aggs : q \in DOMAIN post =>
                   \A i \in NewlyFlagged(aggs[q], post[q]) : (e.ev = "AddFeeToDispute" \/ (post[q][i].rep = e.rep /\ post[q][i].mh = e.rblock /\ q = e.q))
              THEN {} ELSE {"FlaggedAggregateIsTheDisputedReportsOne"})
        ELSE {})

\* "an aggregate becomes flagged when the report that determined it is disputed": a funding message that escrows the
\* disputed stake now (the dispute's escrow record appears), or accepted evidence, about a report that determined an
\* aggregate (facts observed before the message) leaves that aggregate flagged
DRange(s) == { s[i] : i \in DOMAIN s }
HasEscrow(d) == "escrow" \in DOMAIN d
Target(e, post) == IF e.ev = "AddFeeToDispute" THEN CHOOSE d \in DRange(post) : d.id = e.id
                   ELSE CHOOSE d \in DRange(post) : \A x \in DRange(post) : x.id <= d.id
FundedNow(e, post) == DRange(post) # {} /\ (e.ev = "AddFeeToDispute" => \E d \in DRange(post) : d.id = e.id) /\
  LET d == Target(e, post) IN HasEscrow(d) /\ ~(\E p \in DRange(disp) : p.hash = d.hash /\ HasEscrow(p))
CheckDisputed(e, post) ==
  IF e.ok /\ "facts" \in DOMAIN e /\ e.facts.determined
     /\ (e.ev = "AddEvidence" \/ (e.ev \in {"ProposeDispute", "AddFeeToDispute"} /\ FundedNow(e, e.post.dispute.disputes)))
  THEN (IF e.q \in DOMAIN post /\ \E a \in DRange(post[e.q]) : a.ts = e.facts.aggts /\ a.flag THEN {} ELSE {"AggregateOfDisputedDeterminingReportBecomesFlagged"})
  ELSE {}

Answer(p) == IF p.ok THEN [none |-> FALSE, ts |-> p.ts, val |-> p.val] ELSE NONE
AnswerTs(p) == IF p.ok THEN [none |-> FALSE, ts |-> p.ts] ELSE NONE
CheckProbe(p, a) ==
  LET s == Of(a, p.q) IN
  IF p.k = "cur" THEN (IF Answer(p) = Current(s) THEN {} ELSE {"CurrentIsTheLatestAggregate"})
  ELSE IF p.k = "before" THEN (IF Answer(p) = Before(s, p.T) THEN {} ELSE {"DataBeforeSkipsFlaggedAndIsStrict"})
  ELSE IF p.k = "byidx" THEN (IF Answer(p) = ByIndex(s, p.i) THEN {} ELSE {"ByIndexFollowsChronologicalList"})
  ELSE IF p.k = "tsbefore" THEN (IF AnswerTs(p) = TsBefore(s, p.T) THEN {} ELSE {"TimestampBeforeIsStrictPredecessor"})
  ELSE IF p.k = "tsafter" THEN (IF AnswerTs(p) = TsAfter(s, p.T) THEN {} ELSE {"TimestampAfterIsStrictSuccessor"})
  ELSE IF p.k = "snap" THEN
    \* neighbours as of the instant the snapshot was created: a snapshot of the block's own aggregate is made
    \* in the end-block (whole history); a snapshot of an older aggregate is made by a message of the block,
    \* i.e. before the end-block adds the aggregates stamped with this block's time (p.at).
    (LET sc == IF p.ts = p.at THEN s ELSE SelectSeq(s, LAMBDA r : r.ts \prec p.at) IN
     IF p.prev = Prev(sc, p.ts) /\ p.next = Next(sc, p.ts) THEN {} ELSE {"SnapshotNeighboursMatchHistory"})
  ELSE {"UnknownProbe"}

Check(e) ==
  CheckHistory(e, e.post.aggs) \cup CheckDisputed(e, e.post.aggs)
  \cup (IF e.ev = "Probe" THEN UNION { CheckProbe(e.probes[i], e.post.aggs) : i \in DOMAIN e.probes } ELSE {})

Step ==
  /\ l <= Len(Trace)
  /\ LET e == Trace[l]
         reset == e.hist # hist
     IN /\ hist' = e.hist
        /\ aggs' = e.post.aggs /\ disp' = e.post.dispute.disputes
        /\ viol' = IF reset THEN viol ELSE AddViol(viol, l, Check(e))
        /\ l' = l + 1
Spec == Init /\ [][Step]_tvars
Done == (l = Len(Trace) + 1) => PrintT(<<"VIOLS", ToJson(viol)>>)
Accepted == TLCGet("stats").diameter - 1 = Len(Trace)
=============================================================================
