----------------------------- MODULE RewardSM_MC -----------------------------
(* Design level for C04 and C09 together: the life of a tip, from the tipper to  *)
(* the selectors' stake, as a state machine over the definitions of Rewards.tla  *)
(* (Part, commission, per-selector share; floors as in the 18-decimal code) and   *)
(* Escrow.tla's account relations.                                                *)
(*   Tip(q, a)      2% of a is burned, the rest waits with the query in the       *)
(*                  oracle account                                                *)
(*   Payout(q, ..)  the query's aggregate arrives: its tip moves to the tips       *)
(*                  escrow pool and is credited to the selectors of the reporters  *)
(*                  in proportion to power, commission and recorded stake          *)
(*   Withdraw(s)    the whole-coin part of a selector's credit leaves the pool     *)
(* Scales are shrunk so that TLC's integers suffice: credits carry 4 decimals      *)
(* (E24 <- 10^4), rates 1 decimal (E18 <- 10).  Every assignment of powers,     *)
(* rates and recorded stakes within the bounds is explored.                        *)
EXTENDS Rewards, TLC
CONSTANTS Queries, Reps, Sels, Powers, Rates, Stakes, TipAmounts, MaxTips, MaxPayouts
VARIABLES open, oracleBal, escrowBal, credit, paidIn, burned, tipped, ntips, npay, last
mvars == <<open, oracleBal, escrowBal, credit, paidIn, burned, tipped, ntips, npay, last>>
MC_E24 == N(10000)
MC_E18 == N(10)
Accounts == Reps \cup Sels
SumF(f, S) == NSum(f, S)

Init == /\ open = [q \in Queries |-> Zero] /\ oracleBal = Zero /\ escrowBal = Zero
        /\ credit = [a \in Accounts |-> Zero] /\ paidIn = Zero /\ burned = Zero /\ tipped = Zero
        /\ ntips = 0 /\ npay = 0 /\ last = [R |-> Zero, given |-> Zero, n |-> 0]

Tip == \E q \in Queries, a \in TipAmounts :
  /\ ntips < MaxTips /\ ntips' = ntips + 1
  /\ LET b == (N(2) ** a) // N(100) net == a -- b IN
     /\ open' = [open EXCEPT ![q] = @ ++ net] /\ oracleBal' = oracleBal ++ net
     /\ burned' = burned ++ b /\ tipped' = tipped ++ a
  /\ UNCHANGED <<escrowBal, credit, paidIn, npay, last>>

\* one aggregate with one report per reporter in RS; snapshot of r: itself with stake own[r] plus every selector in
\* SS with stake st[s] (each selector backs exactly one reporter: back[s])
Payout == \E q \in Queries, RS \in (SUBSET Reps) \ {{}} :
  \E pw \in [RS -> Powers], rt \in [RS -> Rates], own \in [RS -> Stakes], back \in [Sels -> RS], st \in [Sels -> Stakes] :
  /\ npay < MaxPayouts /\ npay' = npay + 1
  /\ ~IsZero(open[q])
  /\ LET R == open[q]
         order == CHOOSE f \in [1 .. Cardinality(RS) -> RS] : \A i, j \in 1 .. Cardinality(RS) : i # j => f[i] # f[j]
         snapOf(r) == LET B == {r} \cup { s \in Sels : back[s] = r }
                          seqB == CHOOSE f \in [1 .. Cardinality(B) -> B] : \A i, j \in 1 .. Cardinality(B) : i # j => f[i] # f[j]
                          amt(a) == IF a = r THEN N(own[r]) ELSE N(st[a])
                      IN [total |-> [neg |-> FALSE, mag |-> NSum([a \in B |-> amt(a)], B)],
                          origins |-> [i \in 1 .. Cardinality(B) |-> [del |-> seqB[i], amt |-> [neg |-> FALSE, mag |-> amt(seqB[i])]]]]
         aggs == << [i \in 1 .. Cardinality(RS) |-> [rep |-> order[i], pow |-> N(pw[order[i]]), comm |-> N(rt[order[i]]), origins |-> snapOf(order[i])]] >>
         gain(a) == NSum([r \in RS |-> IF a \in Backers(snapOf(r)) THEN Expected24(R, aggs, r, snapOf(r), N(rt[r]), a) ELSE Zero], RS)
         given == NSum([a \in Accounts |-> gain(a)], Accounts)
         ncred == Cardinality({ <<r, a>> \in RS \X Accounts : a \in Backers(snapOf(r)) })
     IN /\ credit' = [a \in Accounts |-> credit[a] ++ gain(a)]
        /\ open' = [open EXCEPT ![q] = Zero] /\ oracleBal' = oracleBal -- R
        /\ escrowBal' = escrowBal ++ R /\ paidIn' = paidIn ++ R
        /\ last' = [R |-> R, given |-> given, n |-> ncred]
  /\ UNCHANGED <<burned, tipped, ntips>>

Withdraw == \E a \in Accounts :
  LET whole == credit[a] // E24 IN
  /\ ~IsZero(whole)
  /\ credit' = [credit EXCEPT ![a] = @ -- (whole ** E24)] /\ escrowBal' = escrowBal -- whole
  /\ UNCHANGED <<open, oracleBal, paidIn, burned, tipped, ntips, npay, last>>

Next == Tip \/ Payout \/ Withdraw
Spec == Init /\ [][Next]_mvars

\* ---- C04 ----
OracleAccountEqualsOpenTips == oracleBal = NSum(open, Queries)
EscrowPoolCoversCredits == NSum(credit, Accounts) \preceq (escrowBal ** E24)
\* every coin a tipper spent is burned, waiting with a query, in the pool, or was withdrawn - nothing else
NothingLost == tipped = burned ++ oracleBal ++ paidIn
\* ---- C09 ----
\* the credits of one payout sum to the reward, to within one smallest credit unit per credit (floors), never more
LastPayoutSplitsExactly == last.given \preceq (last.R ** E24) /\ ((last.R ** E24) -- last.given) \preceq N(2 * last.n)
=============================================================================
