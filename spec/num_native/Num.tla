------------------------------- MODULE Num -------------------------------
(* Native backend of the abstract numeric module: amounts are TLC integers.   *)
(* Used for exhaustive model checking (small constants).  The trace-checking  *)
(* backend with the same interface is ../num_big/Num.tla (selected with       *)
(* -DTLA-Library).  Amounts are NON-NEGATIVE; a -- b is only used when        *)
(* b \preceq a (use Monus / AbsDiff otherwise).                               *)
EXTENDS Integers, Sequences
N(x) == x
Zero == 0
One == 1
a ++ b == a + b
a -- b == a - b
a ** b == a * b
a // b == a \div b
a %% b == a % b
a \preceq b == a <= b
a \prec b == a < b
a \succeq b == a >= b
a \succ b == a > b
Monus(a, b) == IF a >= b THEN a - b ELSE 0
AbsDiff(a, b) == IF a >= b THEN a - b ELSE b - a
NMax(a, b) == IF a >= b THEN a ELSE b
NMin(a, b) == IF a <= b THEN a ELSE b
IsZero(a) == a = 0
\* 10^k
RECURSIVE Pow10(_)
Pow10(k) == IF k = 0 THEN 1 ELSE 10 * Pow10(k - 1)
\* sum of f[x] over a finite set S (f maps to Num)
RECURSIVE NSum(_, _)
NSum(f, S) == IF S = {} THEN 0 ELSE LET x == CHOOSE y \in S : TRUE IN f[x] + NSum(f, S \ {x})
\* sum of a sequence of Num
RECURSIVE NSumSeq(_)
NSumSeq(s) == IF s = <<>> THEN 0 ELSE Head(s) + NSumSeq(Tail(s))
\* q is floor(a/b)
IsFloorDiv(q, a, b) == q * b <= a /\ a < (q + 1) * b
=============================================================================
