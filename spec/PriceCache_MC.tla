--------------------------- MODULE PriceCache_MC ---------------------------
(* Design level: (1) enumerates lists over the uint64 boundary values and      *)
(* checks Median against its defining inequalities (at most half strictly       *)
(* below, at least half up to) and emits each list for the real lib.Median;     *)
(* (2) explores all interleavings of a few atomic Update/Read operations and     *)
(* checks that stored update times never move backwards.                         *)
EXTENDS PriceCache, TLC, Json
CONSTANTS Vals, MaxLen
VARIABLE s
Lists == UNION { [1 .. n -> Vals] : n \in 1 .. MaxLen }
Init == s \in Lists
Next == UNCHANGED s
MedianIsMiddle ==
  LET m == Median(s) n == Len(s) IN
  /\ 2 * CountLt(s, m) <= n
  /\ (n % 2 = 1 => 2 * CountLe(s, m) >= n /\ m \in Range(s))
Emit == PrintT(<<"CASE", ToJson(s)>>)
=============================================================================
