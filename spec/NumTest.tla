------------------------------ MODULE NumTest ------------------------------
(* Self-test of the big-number backend: with a small base (the runner rewrites *)
(* B to 10 in a scratch copy, so every carry / borrow path is hit) the limb    *)
(* operators are a homomorphic image of TLC's integers on 0..R.                *)
EXTENDS Num, TLC
R == 130
RECURSIVE ToInt(_)
ToInt(a) == IF a = <<>> THEN 0 ELSE Head(a) + LimbBase * ToInt(Tail(a))
Canon(a) == a = <<>> \/ a[Len(a)] # 0
ASSUME \A x \in 0..R : ToInt(N(x)) = x /\ Canon(N(x))
ASSUME \A x \in 0..R, y \in 0..R :
   /\ ToInt(N(x) ++ N(y)) = x + y /\ Canon(N(x) ++ N(y))
   /\ ToInt(N(x) ** N(y)) = x * y /\ Canon(N(x) ** N(y))
   /\ (N(x) \preceq N(y)) = (x <= y)
   /\ (N(x) \prec N(y)) = (x < y)
   /\ (N(x) \succeq N(y)) = (x >= y)
   /\ (N(x) \succ N(y)) = (x > y)
   /\ (N(x) = N(y)) = (x = y)
   /\ (y <= x => ToInt(N(x) -- N(y)) = x - y /\ Canon(N(x) -- N(y)))
   /\ ToInt(Monus(N(x), N(y))) = (IF x >= y THEN x - y ELSE 0)
   /\ ToInt(AbsDiff(N(x), N(y))) = (IF x >= y THEN x - y ELSE y - x)
   /\ (y > 0 => /\ ToInt(N(x) // N(y)) = x \div y /\ ToInt(N(x) %% N(y)) = x % y
                /\ Canon(N(x) // N(y)) /\ Canon(N(x) %% N(y))
                /\ IsFloorDiv(N(x \div y), N(x), N(y))
                /\ (x \div y > 0 => ~IsFloorDiv(N((x \div y) - 1), N(x), N(y)))
                /\ ~IsFloorDiv(N((x \div y) + 1), N(x), N(y)))
ASSUME \A k \in 0..7 : ToInt(Pow10(k)) = 10^k
ASSUME ToInt(NSumSeq(<<N(99), N(1), N(900)>>)) = 1000
ASSUME ToInt(NSum([i \in 1..5 |-> N(i * 37)], 1..5)) = 37 * 15
VARIABLE x
Init == x = 0
Next == x' = x
=============================================================================
