--------------------------- MODULE Reporter_Trace ---------------------------
(* C10 binding over recorded histories (projection reporter + event inputs).   *)
EXTENDS Reporter, ReporterSM, Json, TLC, TraceLib
CONSTANT KNOWN
Trace == ndJsonDeserialize("trace.ndjson")
VARIABLES l, viol, hist, sel, rep, cap,
          reported,   \* inferred: reporters that have had a report accepted in this history
          lastCount,  \* inferred: selector -> [rep, t] of the last accepted report that counted its stake
          removed,    \* inferred: selectors taken out of their selection by RemoveSelector in this history
          window      \* inferred: the shortest unbonding period that has been in force in this history (ms)
tvars == <<l, viol, hist, sel, rep, cap, reported, lastCount, removed, window>>
UnbondingMs == N(1814400000)   \* 21 days: the window inside which stake must not serve two reporters
Init == l = 1 /\ viol = {} /\ hist = 0 /\ sel = <<>> /\ rep = <<>> /\ cap = 0 /\ reported = {} /\ lastCount = <<>> /\ removed = {} /\ window = UnbondingMs


\* the selector lock is compared with the block time at nanosecond resolution (a millisecond comparison is wrong when both
\* fall into the same millisecond): the observed delegations with the lock time in ns, and the block time in ns
SN(e) == [i \in DOMAIN e.seltok |-> [e.seltok[i] EXCEPT !.locked = e.seltok[i].lockedn]]
CountedSels(e) == { e.seltok[i].sel : i \in Counted(SN(e), e.tn) }

CheckSubmit(e) ==
  IF ~e.ok THEN {}
  ELSE (IF e.power = PowerOf(SN(e), e.tn) THEN {}
        \* Dev_F27 (open): for a selector with more delegations than the validator cap the stake is summed over the staking
        \* module's "bonded validators by power" walk, which reaches at most cap entries of the power index; a validator that
        \* is bonded at this moment but outside that walk (the index follows delegations and parameter changes at once, the
        \* status only at the end of the block) is left out.  Identity: the recorded power is exactly that sum.
        ELSE IF "F-27" \in KNOWN /\ e.power = (NSum([i \in Counted(SN(e), e.tn) |-> IF e.seltok[i].cnt > e.seltok[i].maxvals /\ ~e.seltok[i].intop THEN Zero ELSE e.seltok[i].tok], Counted(SN(e), e.tn)) // PowerReduction)
        THEN {"KNOWN:F-27"}
        ELSE {"PowerEqualsBondedStakeOfActiveSelectors"})
       \cup (IF "origins" \in DOMAIN e /\ OriginsMatch(SN(e), e.tn, e.origins.origins) /\ e.origins.total.mag = StakeOf(SN(e), e.tn)
             THEN {}
             ELSE IF "F-27" \in KNOWN /\ (\E i \in Counted(SN(e), e.tn) : e.seltok[i].cnt > e.seltok[i].maxvals /\ ~e.seltok[i].intop) THEN {"KNOWN:F-27"}
             ELSE {"StoredOriginsAreTheCountedStake"})
       \cup (IF e.who \in DOMAIN rep /\ rep[e.who].jailed THEN {"JailedReporterCannotReport"} ELSE {})
       \* Dev_F25 (open): RemoveSelector deletes the selection record, and with it the only trace of the stake having been
       \* counted; the removed account can join or become a reporter at once.  Identity: every offending selector was removed
       \* by RemoveSelector earlier in this history.
       \cup (LET Off == { s \in CountedSels(e) : s \in DOMAIN lastCount /\ lastCount[s].rep # e.who /\ (e.t -- lastCount[s].t) \prec window } IN
             IF Off = {} THEN {}
             ELSE IF "F-25" \in KNOWN /\ Off \subseteq removed THEN {"KNOWN:F-25"}
             ELSE {"SameStakeServesTwoReportersWithinWindow"})

PostSel(e) == e.post.reporter.selectors
PostRep(e) == e.post.reporter.reporters

CheckSelect(e) ==
  LET g == CanSelect(sel, rep, e.who, e.rep, e.mytok, cap) IN
  (IF e.ok /\ ~g THEN {"JoiningNeedsRoomAndMinimumStake"} ELSE {})
  \cup (IF e.ok /\ ~(e.who \in DOMAIN PostSel(e) /\ PostSel(e)[e.who].rep = e.rep) THEN {"SelectionRecorded"} ELSE {})
  \cup (IF e.ok /\ Cardinality(SelectorsOf(PostSel(e), e.rep)) > cap THEN {"SelectorCapRespected"} ELSE {})
CheckSwitch(e) ==
  LET g == CanSwitch(sel, rep, e.who, e.rep, e.mytok, cap) IN
  (IF e.ok /\ ~g THEN {"SwitchNeedsRoomAndMinimumStake"} ELSE {})
  \cup (IF e.ok /\ Cardinality(SelectorsOf(PostSel(e), e.rep)) > cap THEN {"SelectorCapRespected"} ELSE {})
  \cup (IF e.ok /\ sel[e.who].rep \in reported /\ ~(PostSel(e)[e.who].locked = e.t ++ e.unbondms)
        THEN {"SwitchAfterReportingLocksForUnbondingPeriod"} ELSE {})
  \cup (IF e.ok /\ PostSel(e)[e.who].locked \prec sel[e.who].locked THEN {"SwitchNeverShortensARunningLock"} ELSE {})
CheckUnjail(e) ==
  (IF e.ok /\ ~CanUnjail(rep, e.who, e.t) THEN {"UnjailOnlyAfterJailTime"} ELSE {})
  \cup (IF e.ok /\ PostRep(e)[e.who].jailed THEN {"UnjailReleases"} ELSE {})
CheckOther(e) ==
  \* only the selection messages change who selects whom; only disputes jail
  (IF e.ev \notin {"CreateReporter", "SelectReporter", "SwitchReporter", "RemoveSelector"}
      /\ ~(\A s \in (DOMAIN sel) \cup (DOMAIN PostSel(e)) : s \in DOMAIN sel /\ s \in DOMAIN PostSel(e) /\ sel[s].rep = PostSel(e)[s].rep)
   THEN {"SelectionChangesOnlyBySelectionMessages_" \o e.ev} ELSE {})
  \cup (IF \E r \in DOMAIN rep : r \in DOMAIN PostRep(e) /\ rep[r].jailed /\ ~PostRep(e)[r].jailed /\ e.ev # "UnjailReporter"
        THEN {"ReleaseOnlyByUnjail"} ELSE {})
  \* a jail term runs its time: while a reporter stays jailed its release time never moves to an earlier moment
  \cup (IF \E r \in DOMAIN rep : r \in DOMAIN PostRep(e) /\ rep[r].jailed /\ PostRep(e)[r].jailed /\ PostRep(e)[r].until \prec rep[r].until
        THEN {"JailTimeNeverMovesBackwards"} ELSE {})
  \* a lock that is still running is never cut short or dropped, whatever happens to the selector's staking records meanwhile
  \* (the switch message has its own clause)
  \cup (IF e.ev # "SwitchReporter"
           /\ \E s \in DOMAIN sel : s \in DOMAIN PostSel(e) /\ e.t \prec sel[s].locked /\ PostSel(e)[s].locked \prec sel[s].locked
        THEN {"RunningLockIsNeverCutShort_" \o e.ev} ELSE {})

\* ---- conformance with the constructive selection model (ReporterSM): MODEL:<step> = drift, not a verdict ----
SV(t) == [s \in DOMAIN t |-> [rep |-> t[s].rep, locked |-> t[s].locked]]
SMCheck(e) ==
  LET pre == SV(sel) post == SV(PostSel(e)) IN
  \* replay of a model behaviour: what the model says about the message (enabled / disabled) is what the chain does
  (IF "sm" \in DOMAIN e /\ e.sm /\ ~e.ok THEN {"MODEL:EnabledActionRejected_" \o e.ev} ELSE {}) \cup
  (IF "sm" \in DOMAIN e /\ ~e.sm /\ e.ok THEN {"MODEL:DisabledActionAccepted_" \o e.ev} ELSE {}) \cup
  IF e.ev = "CreateReporter" THEN (IF (e.ok /\ post = CreateNext(pre, e.who)) \/ (~e.ok /\ post = pre) THEN {} ELSE {"MODEL:CreateReporter"})
  ELSE IF e.ev = "SelectReporter" THEN
     (IF ~e.ok THEN (IF post = pre THEN {} ELSE {"MODEL:SelectRejected"})
      ELSE (IF post = SelectNext(pre, e.who, e.rep) THEN {} ELSE {"MODEL:Select"}) \cup (IF SelectOk(pre, e.who, e.rep, cap) THEN {} ELSE {"MODEL:SelectGuard"}))
  ELSE IF e.ev = "SwitchReporter" THEN
     (IF ~e.ok THEN (IF post = pre THEN {} ELSE {"MODEL:SwitchRejected"})
      ELSE (IF e.who \in DOMAIN pre /\ post = SwitchNext(pre, reported, e.who, e.rep, e.t, e.unbondms) THEN {} ELSE {"MODEL:Switch"})
           \cup (IF SwitchOk(pre, e.who, e.rep, cap) THEN {} ELSE {"MODEL:SwitchGuard"}))
  ELSE IF e.ev = "RemoveSelector" THEN
     (IF ~e.ok THEN (IF post = pre THEN {} ELSE {"MODEL:RemoveRejected"})
      ELSE (IF post = RemoveNext(pre, e.sel) THEN {} ELSE {"MODEL:Remove"}))
  ELSE (IF post = pre THEN {} ELSE {"MODEL:Other_" \o e.ev})

Check(e) ==
  SMCheck(e) \cup
  (IF e.ev = "SubmitValue" THEN CheckSubmit(e)
   ELSE IF e.ev = "SelectReporter" THEN CheckSelect(e)
   ELSE IF e.ev = "SwitchReporter" THEN CheckSwitch(e)
   ELSE IF e.ev = "UnjailReporter" THEN CheckUnjail(e)
   ELSE {})
  \cup CheckOther(e)

Step ==
  /\ l <= Len(Trace)
  /\ LET e == Trace[l]
         reset == e.hist # hist
         okSubmit == e.ev = "SubmitValue" /\ e.ok
     IN /\ hist' = e.hist
        /\ sel' = PostSel(e) /\ rep' = PostRep(e) /\ cap' = e.post.reporter.maxsel
        /\ reported' = IF reset THEN {} ELSE IF okSubmit THEN reported \cup {e.who} ELSE reported
        /\ lastCount' = IF reset THEN <<>>
                        ELSE IF okSubmit
                        THEN [s \in (DOMAIN lastCount) \cup CountedSels(e) |->
                                IF s \in CountedSels(e) THEN [rep |-> e.who, t |-> e.t] ELSE lastCount[s]]
                        ELSE lastCount
        /\ window' = IF reset THEN UnbondingMs ELSE IF e.ev = "UpdateStakingParams" /\ e.ok THEN NMin(window, e.unbondms) ELSE window
        /\ removed' = IF reset THEN {} ELSE IF e.ev = "RemoveSelector" /\ e.ok THEN removed \cup {e.sel} ELSE removed
        /\ viol' = IF reset THEN viol ELSE AddViol(viol, l, Check(e))
        /\ l' = l + 1
Spec == Init /\ [][Step]_tvars
Done == (l = Len(Trace) + 1) => PrintT(<<"VIOLS", ToJson(viol)>>)
Accepted == TLCGet("stats").diameter - 1 = Len(Trace)
=============================================================================
