--------------------------- MODULE AbiEncoding_Gen ---------------------------
(* Spec -> code direction of C15: for every input case (cases.ndjson) TLC       *)
(* computes the pre-image bytes the contracts would hash and prints them; the    *)
(* harness hashes them with the real keccak-256 and calls the chain's encoders.  *)
EXTENDS AbiEncoding, Json, TLC
Cases == ndJsonDeserialize("cases.ndjson")
VARIABLE i
Init == i = 1
Next == i <= Len(Cases) /\ i' = i + 1
Pre(c) == CASE c.kind = "valset" -> ValsetPre(c.vs)
            [] c.kind = "checkpoint" -> CheckpointPre(c.thr, c.ts, c.hash)
            [] c.kind = "attest" -> AttestPre(c.qid, c.value, c.ts, c.power, c.prev, c.next, c.checkpoint, c.attts)
            [] c.kind = "query" -> QueryDataPre(c.tolayer, c.id)
            [] c.kind = "wvalue" -> WithdrawValuePre(c.rcpt, c.sender, c.amount)
Emit == (i <= Len(Cases)) => PrintT(<<"PRE", ToJson([n |-> i, pre |-> Pre(Cases[i])])>>)
=============================================================================
