SPECIFICATION Spec
CONSTANTS
  Ops = {"v1", "v2", "v3"}
  MaxTok = 2
  Steps = {1, 13, 14, 15}
  MaxCps = 2
  AgeCap = 17
  TwoWeeksMs <- MCTwoWeeks
  OneSecondMs <- MCOneSecond
INVARIANTS ChainFollowable ChainShape
CHECK_DEADLOCK FALSE
