---------------------------- MODULE ReporterSM_Sim ----------------------------
(* Behaviours of the selection model as test sequences (see OracleSM_Sim):      *)
(* create / select / switch / report / a third of the unbonding period passes,  *)
(* plus probes: selection messages the model has disabled.  Every action        *)
(* carries en = what the model says about it.                                    *)
EXTENDS ReporterSM_MC, Json
CONSTANT D
VARIABLES hist, np
svars == <<vars, hist, np>>
MaxProbes == 5
SimInit == Init /\ hist = <<>> /\ np = 0
Rec(op, a, b, en) == [op |-> op, a |-> a, b |-> b, en |-> en]
SimNext ==
  \/ np' = np /\ \E a \in Accounts : Create(a) /\ hist' = Append(hist, Rec("Create", a, a, TRUE))
  \/ np' = np /\ \E s, r \in Accounts : Select(s, r) /\ hist' = Append(hist, Rec("Select", s, r, TRUE))
  \/ np' = np /\ \E s, r \in Accounts : Switch(s, r) /\ hist' = Append(hist, Rec("Switch", s, r, TRUE))
  \/ np' = np /\ \E r \in Accounts : Report(r) /\ hist' = Append(hist, Rec("Report", r, r, TRUE))
  \/ np' = np /\ Tick /\ hist' = Append(hist, Rec("Tick", "-", "-", TRUE))
  \/ np < MaxProbes /\ np' = np + 1 /\ UNCHANGED vars /\
     \/ \E a \in Accounts : ~CreateOk(sel, a) /\ hist' = Append(hist, Rec("Create", a, a, FALSE))
     \/ \E s, r \in Accounts : ~SelectOk(sel, s, r, cap) /\ hist' = Append(hist, Rec("Select", s, r, FALSE))
     \/ \E s, r \in Accounts : ~SwitchOk(sel, s, r, cap) /\ hist' = Append(hist, Rec("Switch", s, r, FALSE))
     \/ \E r \in Accounts : ~(IsReporter(sel, r) /\ CountedFor(sel, r, now) # {}) /\ hist' = Append(hist, Rec("Report", r, r, FALSE))
SimSpec == SimInit /\ [][SimNext]_svars
Emit == Len(hist) \notin {D \div 2, D} \/ PrintT(<<"CASE", ToJson(hist)>>)
=============================================================================
