-------------------------- MODULE PriceCache_Trace --------------------------
(* C20 binding (concurrent part): linearizability of recorded histories of      *)
(* concurrent UpdatePrices / GetValidMedianPrices calls on ONE real cache.       *)
(* Trace lines: "new" (fresh cache), "inv" (call started, with arguments),       *)
(* "ret" (call returned, with result), ordered by an atomic sequence number      *)
(* taken before the call and after its return.  Between lines the spec may       *)
(* take silent Lin(c) steps that apply a pending call atomically; a "ret" line   *)
(* is consumable only if the call was linearized with exactly that result.       *)
(* TLC searches the silent interleavings; the trace is accepted iff some branch  *)
(* consumes every line (high-water mark in TLC register 1; needs -workers 1).    *)
EXTENDS PriceCache, Json, TLC, TraceLib
CONSTANT KNOWN
Trace == ndJsonDeserialize("trace.ndjson")
VARIABLES l, px, pend, done
tvars == <<l, px, pend, done>>
Init == l = 1 /\ px = <<>> /\ pend = <<>> /\ done = <<>> /\ TLCSet(1, 1)

Without(f, k) == [x \in (DOMAIN f) \ {k} |-> f[x]]
With(f, k, v) == [x \in (DOMAIN f) \cup {k} |-> IF x = k THEN v ELSE f[x]]
Cutoff(e) == Monus(e.readt, e.maxage)
AsSet(res) == { [m |-> res[i].m, p |-> res[i].p] : i \in DOMAIN res }

New == /\ l <= Len(Trace) /\ Trace[l].ev = "new"
       /\ pend = <<>> /\ done = <<>>
       /\ px' = <<>> /\ pend' = <<>> /\ done' = <<>> /\ l' = l + 1
Inv == /\ l <= Len(Trace) /\ Trace[l].ev = "inv"
       /\ pend' = With(pend, Trace[l].id, Trace[l]) /\ l' = l + 1 /\ UNCHANGED <<px, done>>
Lin == \E c \in DOMAIN pend :
         LET e == pend[c] IN
         /\ pend' = Without(pend, c) /\ l' = l
         /\ IF e.op = "update"
            THEN px' = ApplyBatch(px, e.batch) /\ done' = With(done, c, {})
            ELSE px' = px /\ done' = With(done, c, ReadResult(px, e.params, Cutoff(e)))
Ret == /\ l <= Len(Trace) /\ Trace[l].ev = "ret"
       /\ Trace[l].id \in DOMAIN done
       /\ (Trace[l].op = "read" => done[Trace[l].id] = AsSet(Trace[l].res))
       /\ done' = Without(done, Trace[l].id) /\ l' = l + 1 /\ UNCHANGED <<px, pend>>
Next == New \/ Inv \/ Lin \/ Ret
Spec == Init /\ [][Next]_tvars
\* high-water mark of consumed lines (evaluated on every reached state)
Track == TLCSet(1, IF TLCGet(1) < l THEN l ELSE TLCGet(1))
\* an exchange's stored price only moves forward in update time (action property of the sequential spec)
Forward == [][TimesMonotone(px, px') \/ px' = <<>>]_tvars
Accepted == PrintT(<<"VIOLS", ToJson(IF TLCGet(1) = Len(Trace) + 1 THEN {} ELSE {<<TLCGet(1), "NoLinearizationExplainsThisReturn">>})>>)
=============================================================================
