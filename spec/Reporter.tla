------------------------------ MODULE Reporter ------------------------------
(* C10: reporting power equals the bonded stake of active selectors, once.     *)
(*  sel   : selector -> [rep, locked (ms), cnt]    (a function: one reporter)   *)
(*  rep   : reporter -> [jailed, until, min, comm]                              *)
(*  stake of a report = sum over the reporter's selectors whose lock has passed  *)
(*  of their delegations to BONDED validators (observed from the staking module) *)
EXTENDS Num, Integers, Sequences, FiniteSets

PowerReduction == Pow10(6)
\* st: sequence of [sel, val, tok, bonded, locked]; now in ms
Counted(st, now) == { i \in DOMAIN st : st[i].bonded /\ st[i].locked \preceq now }
StakeOf(st, now) == NSum([i \in Counted(st, now) |-> st[i].tok], Counted(st, now))
PowerOf(st, now) == StakeOf(st, now) // PowerReduction

\* the recorded token origins are exactly the counted summands
OriginsMatch(st, now, origins) ==
  LET C == Counted(st, now) IN
  /\ Len(origins) = Cardinality(C)
  /\ \A i \in C : \E j \in DOMAIN origins :
        origins[j].del = st[i].sel /\ origins[j].val = st[i].val /\ ~origins[j].amt.neg /\ origins[j].amt.mag = st[i].tok

BondedTokens(mytok) == LET B == { i \in DOMAIN mytok : mytok[i].bonded } IN NSum([i \in B |-> mytok[i].tok], B)
SelectorsOf(sel, r) == { s \in DOMAIN sel : sel[s].rep = r }

\* guards of the selection messages (msg_server.go)
CanSelect(sel, rep, s, r, mytok, cap) ==
  /\ s \notin DOMAIN sel /\ r \in DOMAIN rep
  /\ Cardinality(SelectorsOf(sel, r)) < cap
  /\ rep[r].min \preceq BondedTokens(mytok)
CanSwitch(sel, rep, s, r, mytok, cap) ==
  /\ s \in DOMAIN sel /\ sel[s].rep # s /\ r \in DOMAIN rep
  /\ Cardinality(SelectorsOf(sel, r)) < cap
  /\ rep[r].min \preceq BondedTokens(mytok)
CanUnjail(rep, r, now) == r \in DOMAIN rep /\ rep[r].jailed /\ rep[r].until \preceq now
=============================================================================
