INIT Init
NEXT Next
CONSTANTS
  Shapes = {"empty", "garbage", "trunc", "jsonempty", "jsonbare", "valsetonly", "attonly", "initgood", "init65", "initshort", "initshortb", "initmismatch", "valset", "valsetwrongts", "att1", "att2dup", "attforeign", "all"}
INVARIANT Emit
CHECK_DEADLOCK FALSE
