---------------------------- MODULE DisputeSM_MC ----------------------------
(* Design-level model of the dispute life cycle: every interleaving of         *)
(* proposals (first and further rounds, full and partial fees), added fees,     *)
(* votes (three voters; quorum = at least Q of them) and begin-blocks after     *)
(* gaps of 1..7 half-days, for disputes on up to two reports.  Time unit: half  *)
(* a day (DayNs <- 2).                                                          *)
EXTENDS DisputeSM, TLC
CONSTANTS Hashes, Voters, Q, Slash, Fees, Gaps, MaxId, MaxNow
MC_Day == 2
VARIABLES now, ds, nextId, cast, halted
vars == <<now, ds, nextId, cast, halted>>

Init == now = 1 /\ ds = {} /\ nextId = 1 /\ cast = <<>> /\ halted = FALSE
CastOf(id) == IF id \in DOMAIN cast THEN cast[id] ELSE <<>>
Count(f, c) == Cardinality({ v \in DOMAIN f : f[v] = c })
\* choice decided by the votes cast: strict maximum, invalid otherwise (choices: 1 support, 2 against, 3 invalid)
Major(f) == LET s == Count(f, 1) a == Count(f, 2) i == Count(f, 3) IN
            IF s > a /\ s > i THEN 1 ELSE IF a > s /\ a > i THEN 2 ELSE 3
Quorate(f) == Cardinality(DOMAIN f) >= Q
ResNow(f) == IF Quorate(f) THEN Major(f) ELSE 0            \* tally right after a vote
ResEnd(f) == IF Quorate(f) THEN Major(f) ELSE 3 + Major(f)  \* tally after the voting period

Propose(hash, fee) ==
  /\ ~halted /\ nextId <= MaxId /\ ProposeOk(ds, now, hash, fee)
  /\ ds' = ProposeNext(ds, now, nextId, hash, Slash, fee) /\ nextId' = nextId + 1
  /\ UNCHANGED <<now, cast, halted>>
AddFee(id, amt) ==
  /\ ~halted /\ HasId(ds, id) /\ AddFeeOk(IdOf(ds, id), now, amt)
  /\ ds' = (ds \ {IdOf(ds, id)}) \cup {AddFeeNext(IdOf(ds, id), now, amt)}
  /\ UNCHANGED <<now, nextId, cast, halted>>
Vote(v, id, c) ==
  /\ ~halted /\ HasId(ds, id) /\ VoteOk(IdOf(ds, id), now) /\ v \notin DOMAIN CastOf(id)
  /\ LET f == [x \in (DOMAIN CastOf(id)) \cup {v} |-> IF x = v THEN c ELSE CastOf(id)[x]] IN
     /\ cast' = [i \in (DOMAIN cast) \cup {id} |-> IF i = id THEN f ELSE cast[i]]
     /\ ds' = (ds \ {IdOf(ds, id)}) \cup {VoteNext(IdOf(ds, id), now, ResNow(f))}
  /\ UNCHANGED <<now, nextId, halted>>
Begin(dt) ==
  /\ ~halted /\ now + dt <= MaxNow
  /\ now' = now + dt
  /\ LET r == BeginNext(ds, now + dt, LAMBDA d : ResEnd(CastOf(d.id))) IN ds' = r.ds /\ halted' = r.fails
  /\ UNCHANGED <<nextId, cast>>
Next == (\E h \in Hashes, f \in Fees : Propose(h, f)) \/ (\E d \in ds, a \in Fees : AddFee(d.id, a))
        \/ (\E v \in Voters, d \in ds, c \in 1 .. 3 : Vote(v, d.id, c)) \/ (\E dt \in Gaps : Begin(dt))
Spec == Init /\ [][Next]_vars

\* ---------------- invariants ----------------
\* the begin-blocker can always complete, whatever the interleaving (C02 for disputes)
BeginBlockNeverFails == ~halted
\* ... stated on the table itself: whatever time the next block has, execution will not fail
NoFailureAhead == \A dt \in Gaps : ~BeginNext(ds, now + dt, LAMBDA d : ResEnd(CastOf(d.id))).fails
Overdue == NothingOverdue(ds, now)
OneOpenPerReport == \A h \in Hashes : Cardinality({ d \in OfHash(ds, h) : d.open }) <= 1
ExecutedOncePerReport == \A h \in Hashes : Cardinality({ d \in OfHash(ds, h) : d.vote.executed }) <= 1
\* (an unresolved round executed at its end keeps open = TRUE: ExecuteVote does not clear the flag - observation N-12)
ExecutedIsFinal == \A d \in ds : d.vote.executed => (d.status = RESOLVED /\ ~d.pending /\ d.vote.result # 0 /\ d.id = Latest(ds, d.hash).id)
FailedHasNoVote == \A d \in ds : d.status = FAILED => (~d.open /\ ~d.pending /\ ~d.vote.has /\ d.feetotal \prec d.slash)
VotingIsFunded == \A d \in ds : d.status # PREVOTE /\ d.status # FAILED => (d.vote.has /\ (d.vote.executed \/ d.slash \preceq d.feetotal))
RoundsChain == \A d \in ds : Len(d.prev) = d.round /\ d.prev[d.round] = d.id /\ (\A i \in 1 .. d.round - 1 : d.prev[i] < d.prev[i + 1] /\ HasId(ds, d.prev[i]) /\ ~IdOf(ds, d.prev[i]).open /\ ~IdOf(ds, d.prev[i]).pending /\ IdOf(ds, d.prev[i]).status = UNRESOLVED)
\* pending execution means: tallied and waiting - or a fresh later round, which inherits the flag from its predecessor
PendingMeansTalliedOrLaterRound == \A d \in ds : d.pending => (d.vote.result # 0 \/ (d.status = VOTING /\ d.round > 1))
ResultMatchesStatus == \A d \in ds : /\ (d.status = UNRESOLVED => d.vote.result \in 4 .. 6)
                                     /\ (d.status = RESOLVED => d.vote.result \in 1 .. 6)
                                     /\ (d.status \in {PREVOTE, VOTING, FAILED} => d.vote.result = 0)
DeadlinesShape == \A d \in ds : (d.status = PREVOTE => d.endn = d.startn ++ DayNs) /\ (d.status = VOTING => d.endn = d.vote.startn ++ ThreeDaysNs /\ d.vote.endn = d.vote.startn ++ TwoDaysNs)
Inv == /\ BeginBlockNeverFails /\ NoFailureAhead /\ Overdue /\ OneOpenPerReport /\ ExecutedOncePerReport /\ ExecutedIsFinal
       /\ FailedHasNoVote /\ VotingIsFunded /\ RoundsChain /\ PendingMeansTalliedOrLaterRound /\ ResultMatchesStatus /\ DeadlinesShape

\* ---------------- action properties ----------------
StatusGraph == [][\A d \in ds : HasId(ds', d.id) /\ StatusStep(d.status, IdOf(ds', d.id).status)]_vars
ExecutionIsFinal == [][\A d \in ds : d.vote.executed => IdOf(ds', d.id) = d]_vars
ClosedStaysClosed == [][\A d \in ds : (d.status = FAILED \/ (~d.open /\ ~d.pending)) => IdOf(ds', d.id) = d]_vars
=============================================================================
