------------------------------- MODULE Escrow -------------------------------
(* C04: escrow accounts always cover what the chain says it owes.              *)
(*   oracle account      = sum of unpaid tips on open queries (exactly)        *)
(*   tips escrow pool   >= sum of reward credits not yet withdrawn             *)
(*                         (credits are 18-decimal fixed point: compare x10^18; *)
(*                         each credit may carry one 10^-18 unit of rounding,    *)
(*                         the tolerance C09 states)                             *)
(*   bridge account      = 0                                                   *)
(*   credits ever given <= coins ever paid into the tips escrow pool           *)
(*   a withdrawal / claim the ledger entitles a user to never fails for funds  *)
EXTENDS Num, Integers, Sequences, FiniteSets

VARIABLES oracleBal,   \* balance of the oracle module account
          openTips,    \* sum of Query.Amount over open queries
          escrowBal,   \* balance of the tips escrow pool
          credits18,   \* sum of selector reward credits, scaled by 10^18
          bridgeBal,   \* balance of the bridge module account
          paidIn,      \* history: coins ever moved into the tips escrow pool
          credited18,  \* history: credits ever given, scaled by 10^18
          ncredits     \* history: number of individual credits given (each may carry 10^-18 of rounding, see C09)
evars == <<oracleBal, openTips, escrowBal, credits18, bridgeBal, paidIn, credited18, ncredits>>

E18 == Pow10(18)
OracleHoldsTipsAt(ob, ot) == ob = ot
EscrowCoversCreditsAt(eb, c18, n) == c18 \preceq ((eb ** E18) ++ N(n))
BridgeHoldsNothingAt(bb) == IsZero(bb)
CreditsWithinPaidInAt(cr, pin, n) == cr \preceq ((pin ** E18) ++ N(n))

\* a tip of amount a (after the 2% burn) lands in the oracle account AND in the query's amount
TipLands(a) == LET net == a -- ((N(2) ** a) // N(100)) IN
               /\ oracleBal' = oracleBal ++ net /\ openTips' = openTips ++ net

\* a reward payout moves `r` coins into the escrow pool and credits at most r*10^18
Payout(r) == /\ escrowBal' = escrowBal ++ r
             /\ credits18' \preceq (credits18 ++ (r ** E18))

\* a tip withdrawal takes the whole-coin part of one selector's credit out of both
WithdrawCredit(whole) == /\ escrowBal' ++ whole = escrowBal
                         /\ credits18' ++ (whole ** E18) = credits18
=============================================================================
