------------------------- MODULE Dispute_Settle_Trace -------------------------
(* C13 binding: dispute settlement pays out exactly what was paid in, once     *)
(* (projections dispute, bank, hold).                                           *)
(* Per dispute family (all rounds share the hash) the spec keeps a shadow        *)
(* ledger of coins that entered the dispute account for it (fees, escrowed       *)
(* stake) and coins that left (burn, stake returned or awarded, refunds, voter   *)
(* rewards); the dispute account's balance must move by exactly the flows the    *)
(* result implies, every payer / voter is paid once, and when everybody has      *)
(* claimed at most dust is left.                                                 *)
EXTENDS Dispute, Json, TLC, TraceLib
CONSTANT KNOWN
Trace == ndJsonDeserialize("trace.ndjson")
VARIABLES l, viol, hist, disp, payers, voters, bal, hold, dust,
          short,      \* inferred: coins that fees paid from stake have recorded but not delivered so far (finding F-13), all families
          potpaid,    \* inferred: family hash -> voter rewards paid out so far
          rewarded,   \* inferred: <<family hash, account>> pairs that have been paid a voter reward in this history
          fam,       \* inferred: hash -> [in, out] coins that entered / left the dispute account for the family
          paidTimes, \* inferred: <<id, payer>> -> number of fee payments by that payer to that dispute id
          bondFam    \* inferred: hashes of families that received a fee payment from stake
tvars == <<l, viol, hist, disp, payers, voters, bal, hold, dust, fam, paidTimes, bondFam, rewarded, short, potpaid>>
Init == /\ l = 1 /\ viol = {} /\ hist = 0 /\ disp = <<>> /\ payers = <<>> /\ voters = <<>> /\ bal = Zero /\ hold = <<>> /\ dust = Zero
        /\ fam = <<>> /\ paidTimes = <<>> /\ bondFam = {} /\ rewarded = {} /\ short = Zero /\ potpaid = <<>>

ById(ds, id) == CHOOSE d \in Range(ds) : d.id = id
Has(ds, id) == \E d \in Range(ds) : d.id = id
Executed(d) == "vote" \in DOMAIN d /\ d.vote.executed
ResultOf(d) == IF "vote" \in DOMAIN d THEN d.vote.result ELSE 0
NewlyExecuted(post) == { d \in Range(post) : Executed(d) /\ ~(Has(disp, d.id) /\ Executed(ById(disp, d.id))) }
PayerRec(ps, id, who) == { p \in Range(ps) : p.id = id /\ p.who = who }
VotersOfFamily(vs, d) == { v \in Range(vs) : v.id \in Range(d.prev) }

\* ---- execution: what leaves the dispute account, by result ----
Returned(d) == IF ResultOf(d) \in {3, 6} THEN d.slashorig
               ELSE IF ResultOf(d) \in {2, 5} THEN d.slashorig ++ Monus(d.slashorig, d.burn)
               ELSE Zero
\* the against branch stores slash + (slash - burn) back into the record: recover the original slash amount
OrigSlash(d, pre) == IF Has(pre, d.id) THEN ById(pre, d.id).slash ELSE d.slash
Outflows(post) ==
  \* the total leaving the account in this begin-block: per executed dispute its burn and what its result returns
  LET NE == NewlyExecuted(post)
      withOrig == { [d EXCEPT !.slashorig = OrigSlash(d, disp)] : d \in { [x \in (DOMAIN dd) \cup {"slashorig"} |-> IF x = "slashorig" THEN Zero ELSE dd[x]] : dd \in NE } }
  \* (all of it when no voter pot is set aside - nobody voted -, half otherwise: the other half is the voters' pot)
  IN { NSum([d \in withOrig |-> (IF IsZero(d.vreward) THEN d.burn ELSE d.burn // N(2)) ++ Returned(d)], withOrig) }

\* ---- Dev_* deviations (open findings), identified by the family's history ----
MultiRound(d) == d.round > 1
RepeatedPayer(id, who) == <<id, who>> \in DOMAIN paidTimes /\ paidTimes[<<id, who>>] > 1
BondPayers(ps, id) == { p \in Range(ps) : p.id = id /\ p.bond }
Known(e, d, who) ==
  IF "F-18" \in KNOWN /\ MultiRound(d) THEN "KNOWN:F-18"
  ELSE IF "F-16" \in KNOWN /\ \E p \in Range(payers) \cup Range(e.post.dispute.payers) : p.id = d.id /\ RepeatedPayer(d.id, p.who) THEN "KNOWN:F-16"
  ELSE IF "F-17" \in KNOWN /\ d.status = FAILED THEN "KNOWN:F-17"
  ELSE IF "F-21" \in KNOWN /\ Cardinality(BondPayers(payers, d.id)) + (IF "feestake" \in DOMAIN d THEN 0 ELSE 1) > 1 /\ (\E p \in Range(payers) : p.id = d.id /\ p.bond) THEN "KNOWN:F-21"
  ELSE "none"
Name(k, n) == IF k = "none" THEN n ELSE k

CheckBegin(e, post) ==
  LET NE == NewlyExecuted(post) IN
  (IF \A d \in NE : d.status = RESOLVED /\ ResultOf(d) # 0 THEN {} ELSE {"ExecutesOnlyResolvedTalliedDisputes"})
  \cup (IF bal \succeq e.post.dispute.bal /\ (bal -- e.post.dispute.bal) \in Outflows(post) THEN {}
        ELSE {IF \E d \in NE : MultiRound(d) /\ "F-18" \in KNOWN THEN "KNOWN:F-18" ELSE "ExecutionMovesExactlyBurnAndStakeByResult"})
  \cup (IF \A d \in NE : d.vreward = d.burn // N(2) \/ IsZero(d.vreward) THEN {} ELSE {"VoterPotIsHalfTheBurnAmount"})
  \cup (IF \A d \in Range(post) : (Has(disp, d.id) /\ Executed(ById(disp, d.id))) => Executed(d) THEN {} ELSE {"ExecutionIsFinal"})

CheckRefund(e, post) ==
  LET d == IF Has(disp, e.id) THEN ById(disp, e.id) ELSE [id |-> e.id, status |-> -1, round |-> 0, prev |-> <<>>]
      rec == PayerRec(payers, e.id, e.payer)
      k == IF Has(disp, e.id) THEN Known(e, d, e.payer) ELSE "none"
  IN
  IF ~e.ok THEN
     \* (Dev_F13: a family whose fee was partly paid from stake received up to one unit per selector less than recorded; the
     \*  last refund can then be short by those few units.  Identity: fee from stake in this family and the account is short
     \*  of this payer's refund by at most 16 units.)
     (IF "err" \in DOMAIN e /\ \E i \in 1 .. (Len(e.err) - 11) : SubSeq(e.err, i, i + 11) = "insufficient"
      THEN {IF "F-13" \in KNOWN /\ Has(disp, e.id) /\ ~IsZero(short) /\ rec # {}
               /\ LET p == CHOOSE x \in rec : TRUE
                      due == ((p.amt ** (IF d.status = FAILED THEN d.feetotal -- (d.feetotal // N(20)) ELSE Monus(d.slash, d.burn))) // d.feetotal)
                             ++ (IF d.status # FAILED /\ ResultOf(d) \in {1, 4} THEN (p.amt ** d.slash) // d.feetotal ELSE Zero)
                      \* a refund of a failed dispute also burns the payer's part of the 5%: the account must cover both
                      pb == IF d.status = FAILED THEN (p.amt ** (d.feetotal // N(20))) // d.feetotal ELSE Zero
                  IN (due ++ pb) \preceq (bal ++ short)
            THEN "KNOWN:F-13" ELSE Name(k, "EntitledRefundNeverFailsForLackOfFunds")}
      ELSE {})
     \* a recorded payer of a family whose executed result leaves a refund can always claim it (through the id it paid to)
     \cup (IF Has(disp, e.id) /\ PayerRec(payers, e.id, e.payer) # {}
              /\ (\E x \in Range(disp) : x.hash = d.hash /\ Executed(x) /\ ResultOf(x) \in {1, 3, 4, 6})
           THEN {IF "F-13" \in KNOWN /\ ~IsZero(short) /\ "err" \in DOMAIN e /\ (\E i \in 1 .. (Len(e.err) - 11) : SubSeq(e.err, i, i + 11) = "insufficient") THEN "KNOWN:F-13"
                 ELSE IF "F-18" \in KNOWN /\ (\E x \in Range(disp) : x.hash = d.hash /\ x.round > 1) THEN "KNOWN:F-18"
                 \* (Dev_F21: the record of fees paid from stake is kept per dispute, not per payer; the refund of the first
                 \*  stake payer uses it up.  Identity: this payer paid from stake and the dispute's record is gone.)
                 ELSE IF "F-21" \in KNOWN /\ (CHOOSE p \in rec : TRUE).bond /\ "feestake" \notin DOMAIN d THEN "KNOWN:F-21" ELSE "EveryRecordedPayerCanClaimItsRefund"}
           ELSE {})
     \cup (IF e.post.dispute.bal = bal /\ e.post.dispute.payers = payers THEN {} ELSE {"RejectedRefundChangesNothing"})
  ELSE
     (IF rec # {} THEN {} ELSE {"RefundOnlyToARecordedPayer"})
     \cup (IF PayerRec(e.post.dispute.payers, e.id, e.payer) = {} THEN {} ELSE {"RefundClaimedExactlyOnce"})
     \cup (IF Has(disp, e.id) /\ (d.status = FAILED \/ (Executed(d) /\ ResultOf(d) \in {1, 3, 4, 6})) THEN {} ELSE {"RefundOnlyAfterExecutionOfARefundableResult"})
     \* sub-unit dust: the 10^-6 parts of this payer's pro-rata amounts join the accumulator, whole units of it are burned
     \* with this withdrawal and the sub-unit rest is carried
     \cup (IF rec = {} \/ ~Has(disp, e.id) THEN {}
           ELSE LET p == CHOOSE x \in rec : TRUE
                    \* a failed (never fully funded) dispute gives the fees back less the 5% burn; each payer's part of the burn
                    \* leaves escrow with its refund (the code refunded only the 5% and kept the rest in escrow for ever - F-17)
                    fburn == d.feetotal // N(20)
                    fmb == IF d.status = FAILED THEN d.feetotal -- fburn ELSE Monus(d.slash, d.burn)
                    pburn == IF d.status = FAILED THEN (p.amt ** fburn) // d.feetotal ELSE Zero
                    fr1 == ((p.amt ** fmb ** E6) // d.feetotal) %% E6
                    fr2 == IF d.status # FAILED /\ ResultOf(d) \in {1, 4} THEN ((p.amt ** d.slash ** E6) // d.feetotal) %% E6 ELSE Zero
                    total == dust ++ fr1 ++ fr2
                    out == ((p.amt ** fmb) // d.feetotal) ++ (IF d.status # FAILED /\ ResultOf(d) \in {1, 4} THEN (p.amt ** d.slash) // d.feetotal ELSE Zero)
                    left == Monus(bal, e.post.dispute.bal)   \* what left dispute escrow with this withdrawal: the payout and the burn
                IN IF (out ++ pburn) \preceq left /\ (left -- (out ++ pburn)) = total // E6 /\ e.post.dispute.dust = total %% E6 THEN {}
                   ELSE {"SubUnitDustIsAccumulatedAndBurnedInWholeUnits"})
     \* (a failed - never fully funded - dispute refunds the payment less the 5% burn, which leaves escrow with the refund)
     \cup (IF rec = {} \/ ~Has(disp, e.id) THEN {}
           ELSE LET p == CHOOSE x \in rec : TRUE
                    failed == d.status = FAILED
                    fburn2 == d.feetotal // N(20)
                    refund == IF failed THEN (p.amt ** (d.feetotal -- fburn2)) // d.feetotal ELSE (p.amt ** Monus(d.slash, d.burn)) // d.feetotal
                    bond == IF ~failed /\ ResultOf(d) \in {1, 4} THEN (p.amt ** d.slash) // d.feetotal ELSE Zero
                    paidOut == Monus(Monus(bal, e.post.dispute.bal), IF failed THEN (p.amt ** fburn2) // d.feetotal ELSE Zero)
                    liquid == Monus(e.post.hold[e.payer].bal, hold[e.payer].bal)
                    staked == Monus(e.post.hold[e.payer].stake, hold[e.payer].stake)
                    dustBurn == Monus(dust ++ N(2) ** E6, e.post.dispute.dust) // E6   \* whole loya burned from dust: at most 2
                IN (IF AbsDiff(paidOut, refund ++ bond) \preceq N(3) THEN {} ELSE {Name(k, "RefundIsTheProRataPartOfWhatTheResultLeaves")})
                   \cup (IF p.bond THEN
                           \* a fee paid from stake came from the payer's selectors: the refund goes back to those stakes
                           (LET A == DOMAIN hold
                                stakedAll == NSum([a \in A |-> Monus(e.post.hold[a].stake, hold[a].stake)], A)
                            IN IF AbsDiff(stakedAll, refund ++ bond) \preceq N(16) /\ IsZero(liquid) THEN {} ELSE {Name(k, "StakePayerIsRefundedIntoStake")})
                         ELSE (IF liquid = refund /\ AbsDiff(staked, bond) \preceq N(2) THEN {} ELSE {Name(k, "BalancePayerIsRefundedLiquidPlusAwardedStake")})))

CheckClaim(e, post) ==
  LET d == IF Has(disp, e.id) THEN ById(disp, e.id) ELSE [id |-> e.id, status |-> -1, prev |-> <<>>, vreward |-> Zero]
      mine == { v \in Range(voters) : v.id \in Range(d.prev) /\ v.who = e.who }
      k == IF Has(disp, e.id) /\ "F-20" \in KNOWN THEN "KNOWN:F-20" ELSE "none"
      paid == Monus(bal, e.post.dispute.bal)
  IN
  IF ~e.ok THEN
     \* (Dev_F13 again: the account is shared, the units that stake-paid fees never delivered can be missing when a reward
     \*  is claimed.  Identity: the bank reports what the payment needs; the accumulated shortfall covers the difference.)
     (IF "err" \in DOMAIN e /\ \E i \in 1 .. (Len(e.err) - 11) : SubSeq(e.err, i, i + 11) = "insufficient"
      THEN {IF "F-13" \in KNOWN /\ ~IsZero(short) /\ "need" \in DOMAIN e /\ e.need \preceq (bal ++ short) THEN "KNOWN:F-13" ELSE "EntitledRewardNeverFailsForLackOfFunds"}
      ELSE {})
     \cup (IF e.post.dispute.bal = bal THEN {} ELSE {"RejectedClaimChangesNothing"})
  ELSE
     (IF Has(disp, e.id) /\ Executed(d) THEN {} ELSE {"RewardOnlyAfterExecution"})
     \cup (IF mine # {} THEN {} ELSE {"RewardOnlyToAVoterOfTheDispute"})
     \cup (IF \A v \in Range(voters) : (v.id = e.id /\ v.who = e.who) => ~v.claimed THEN {} ELSE {"RewardClaimedExactlyOnce"})
     \* ... whichever round the account voted in: one payment per family and account
     \cup (IF Has(disp, e.id) /\ <<d.hash, e.who>> \in rewarded /\ ~IsZero(paid) THEN {"RewardClaimedExactlyOnce"} ELSE {})
     \cup (IF paid \preceq d.vreward /\ Monus(e.post.hold[e.who].bal, hold[e.who].bal) = paid THEN {} ELSE {"RewardIsPaidFromThePotToTheVoter"})
     \* ... and all the claims of a family together never exceed its pot (the largest voter reward recorded in the family)
     \cup (IF Has(disp, e.id)
           THEN LET fam0 == { x \in Range(disp) : x.hash = d.hash }
                    pot == (CHOOSE x \in fam0 : \A y \in fam0 : y.vreward \preceq x.vreward).vreward
                    sofar == IF d.hash \in DOMAIN potpaid THEN potpaid[d.hash] ELSE Zero
                IN IF (sofar ++ paid) \preceq pot THEN {} ELSE {"VoterClaimsTogetherNeverExceedThePot"}
           ELSE {})

\* shadow ledger per family
FamOf(ds, id) == IF Has(ds, id) THEN ById(ds, id).hash ELSE "none"
Bump(f, h, din, dout) == IF h = "none" THEN f
                         ELSE [x \in (DOMAIN f) \cup {h} |-> IF x = h THEN [in |-> (IF h \in DOMAIN f THEN f[h].in ELSE Zero) ++ din, out |-> (IF h \in DOMAIN f THEN f[h].out ELSE Zero) ++ dout] ELSE f[x]]

\* when nothing is left to claim for a family, at most dust remains of what entered for it
AllClaimed(post, ps, vs, h) ==
  LET ds == { d \in Range(post) : d.hash = h } IN
  \* the family was executed - or never fully funded and has failed (its payers claim too)
  /\ (\E d \in ds : Executed(d)) \/ (ds # {} /\ \A d \in ds : d.status = FAILED)
  /\ \A d \in ds : { p \in Range(ps) : p.id = d.id } = {}
  /\ \A d \in ds : \A v \in Range(vs) : v.id = d.id => v.claimed
CheckResidual(e, f2) ==
  LET post == e.post.dispute.disputes
      done == { h \in DOMAIN f2 : AllClaimed(post, e.post.dispute.payers, e.post.dispute.voters, h) }
      bad == { h \in done : ~(f2[h].out \preceq f2[h].in /\ (f2[h].in -- f2[h].out) \preceq N(64)) }
      \* Dev_F13 (open): a fee paid from stake is apportioned over the reporter's selectors with truncation, so up to one
      \* smallest unit per selector less than the recorded fee reaches the dispute account, while payouts use the record
      f13 == { h \in bad : "F-13" \in KNOWN /\ h \in bondFam /\ f2[h].in \prec f2[h].out /\ (f2[h].out -- f2[h].in) \preceq N(16) }
  IN IF bad = {} THEN {}
     ELSE IF bad = f13 THEN {"KNOWN:F-13"}
     ELSE { IF "F-18" \in KNOWN /\ (\E h \in bad : \E d \in Range(post) : d.hash = h /\ d.round > 1) THEN "KNOWN:F-18"
            ELSE IF "F-17" \in KNOWN /\ (\A h \in bad : \E d \in Range(post) : d.hash = h /\ d.status = FAILED) THEN "KNOWN:F-17"
            ELSE "AfterAllClaimsOnlyDustRemains" }

Check(e, f2) ==
  LET post == e.post.dispute.disputes IN
  (IF e.ev = "BeginBlock" /\ e.ok THEN CheckBegin(e, post)
   ELSE IF e.ev = "WithdrawFeeRefund" THEN CheckRefund(e, post)
   ELSE IF e.ev = "ClaimReward" THEN CheckClaim(e, post)
   ELSE IF e.ev \in {"ProposeDispute", "AddFeeToDispute"} THEN (IF e.post.dispute.bal \succeq bal THEN {} ELSE {"FundingOnlyAddsToEscrow"})
   ELSE (IF e.post.dispute.bal = bal THEN {} ELSE {"DisputeAccountMovesOnlyThroughDisputeOperations_" \o e.ev}))
  \cup (IF e.ev \in {"WithdrawFeeRefund", "ClaimReward"} /\ e.ok THEN CheckResidual(e, f2) ELSE {})

Step ==
  /\ l <= Len(Trace)
  /\ LET e == Trace[l]
         reset == e.hist # hist
         post == e.post.dispute.disputes
         b2 == e.post.dispute.bal
         din == Monus(b2, bal)
         dout == Monus(bal, b2)
         target == IF e.ev = "AddFeeToDispute" \/ e.ev = "WithdrawFeeRefund" \/ e.ev = "ClaimReward" THEN FamOf(post, e.id)
                   ELSE IF e.ev = "ProposeDispute" /\ e.ok /\ Range(post) # {} THEN (CHOOSE d \in Range(post) : \A x \in Range(post) : x.id <= d.id).hash
                   ELSE "none"
         f1 == IF reset THEN <<>> ELSE fam
         \* begin-block executions: attribute each executed dispute's outflow to its family (burn half/all is the only freedom; use actual total when one execution)
         NE == NewlyExecuted(post)
         \* what an executed dispute sends out: the burn (all of the burn amount when no voter pot was set aside, else half)
         \* plus the stake returned / awarded by its result
         outOf(d) == (IF IsZero(d.vreward) THEN d.burn ELSE d.burn // N(2))
                     ++ (LET so == OrigSlash(d, disp) IN
                         IF ResultOf(d) \in {3, 6} THEN so ELSE IF ResultOf(d) \in {2, 5} THEN so ++ Monus(so, d.burn) ELSE Zero)
         RECURSIVE BumpAll(_, _)
         BumpAll(f, S) == IF S = {} THEN f ELSE LET d == CHOOSE x \in S : TRUE IN BumpAll(Bump(f, d.hash, Zero, outOf(d)), S \ {d})
         f2 == IF e.ev = "BeginBlock" THEN BumpAll(f1, NE) ELSE Bump(f1, target, din, dout)
         payKey == IF e.ev = "ProposeDispute" /\ e.ok /\ Range(post) # {} THEN <<(CHOOSE d \in Range(post) : \A x \in Range(post) : x.id <= d.id).id, e.who>>
                   ELSE IF e.ev = "AddFeeToDispute" /\ e.ok THEN <<e.id, e.who>> ELSE <<0, "none">>
         pt1 == IF reset THEN <<>> ELSE paidTimes
     IN /\ hist' = e.hist
        /\ disp' = post /\ payers' = e.post.dispute.payers /\ voters' = e.post.dispute.voters /\ bal' = b2 /\ hold' = e.post.hold /\ dust' = e.post.dispute.dust
        /\ fam' = f2
        /\ paidTimes' = IF payKey[1] = 0 THEN pt1 ELSE [k \in (DOMAIN pt1) \cup {payKey} |-> IF k = payKey THEN (IF payKey \in DOMAIN pt1 THEN pt1[payKey] ELSE 0) + 1 ELSE pt1[k]]
        /\ bondFam' = (IF reset THEN {} ELSE bondFam) \cup (IF e.ev \in {"ProposeDispute", "AddFeeToDispute"} /\ e.ok /\ e.bond /\ target # "none" THEN {target} ELSE {})
        /\ short' = (IF reset THEN Zero ELSE short) ++
                     (IF e.ev \in {"ProposeDispute", "AddFeeToDispute"} /\ e.ok /\ e.bond /\ target # "none"
                      THEN LET tgt == CHOOSE x \in Range(post) : x.hash = target /\ \A y \in Range(post) : y.hash = target => y.id <= x.id
                               before == IF Has(disp, tgt.id) THEN ById(disp, tgt.id).feetotal
                                         ELSE IF tgt.round > 1 /\ \E y \in Range(disp) : y.hash = target THEN (CHOOSE y \in Range(disp) : y.hash = target /\ \A z \in Range(disp) : z.hash = target => z.id <= y.id).feetotal
                                         ELSE Zero
                               \* (the same message escrows the reporter's stake when it completes the fee of a first round)
                               escrowNow == IF tgt.round = 1 /\ tgt.status = VOTING /\ ~(Has(disp, tgt.id) /\ ById(disp, tgt.id).status # PREVOTE)
                                            THEN tgt.slash ELSE Zero
                           IN Monus(Monus(tgt.feetotal, before) ++ escrowNow, din)
                      ELSE Zero)
        /\ potpaid' = LET pp == IF reset THEN <<>> ELSE potpaid IN
                       IF e.ev = "ClaimReward" /\ e.ok /\ Has(disp, e.id)
                       THEN LET h == ById(disp, e.id).hash
                                paid == Monus(bal, b2)
                            IN [k \in (DOMAIN pp) \cup {h} |-> IF k = h THEN (IF h \in DOMAIN pp THEN pp[h] ELSE Zero) ++ paid ELSE pp[k]]
                       ELSE pp
        /\ rewarded' = (IF reset THEN {} ELSE rewarded) \cup (IF e.ev = "ClaimReward" /\ e.ok /\ Has(disp, e.id) THEN {<<ById(disp, e.id).hash, e.who>>} ELSE {})
        /\ viol' = IF reset THEN viol ELSE AddViol(viol, l, Check(e, f2))
        /\ l' = l + 1
Spec == Init /\ [][Step]_tvars
Done == (l = Len(Trace) + 1) => PrintT(<<"VIOLS", ToJson(viol)>>)
Accepted == TLCGet("stats").diameter - 1 = Len(Trace)
=============================================================================
