----------------------------- MODULE Ledger_MC -----------------------------
(* Design level: with small Rate/MsPerDay (so truncation matters at every gap) *)
(* per-block truncation can never exceed the continuous bound, for every       *)
(* interleaving of gaps, start of minting, tips, claims, withdrawals, payouts.  *)
EXTENDS Ledger, TLC
CONSTANTS Gaps, Amts, MaxT
VARIABLE nint
Init == LedgerInit(20, 0) /\ nint = 0
NewInterval == /\ Len(ivals) < 2 /\ ivals' = Append(ivals, [t0 |-> lnow, minted |-> 0])
               /\ UNCHANGED <<supply, minit, hasprev, prev, tbr, lnow>>
Other == /\ KeepIvals
         /\ \/ \E a \in Amts : a <= supply /\ LTip(a)
            \/ \E a \in Amts : LClaim(a)
            \/ \E a \in Amts : a <= supply /\ LWithdraw(a)
            \/ LPayout(0)
Next == \/ /\ nint' = nint
           /\ \/ \E dt \in Gaps : lnow + dt <= MaxT /\ LBegin(dt, 0) /\ TrackMint(Provision(lnow + dt))
              \/ (~minit /\ LStartMint /\ KeepIvals)
              \/ NewInterval
        \/ /\ nint < 2 /\ nint' = nint + 1 /\ Other
Spec == Init /\ [][Next]_<<lvars, nint>>
\* 75/25 never loses or creates a unit: reward pool + quarter stream = minted (checked per step)
SplitExact == [][ \A dt \in Gaps : LBegin(dt, 0) =>
                   LET x == Provision(lnow + dt) IN (tbr' - tbr) + Quarter(x) = x /\ (tbr' - tbr) >= Quarter(x) ]_<<lvars, nint>>
Bound == lnow <= MaxT /\ supply <= 45 /\ supply >= 10
=============================================================================
