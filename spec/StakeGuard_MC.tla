--------------------------- MODULE StakeGuard_MC ---------------------------
(* Enumerates baseline / current-stake / transaction cases around the 5%        *)
(* boundaries, checks that the property is not vacuous on them (both outcomes   *)
(* occur; cumulative and per-message rules differ on some case) and prints each  *)
(* case for replay through the real TrackStakeChangesDecorator.                  *)
EXTENDS StakeGuard, TLC, Json
CONSTANTS Bases, MaxLen
VARIABLE c
Kinds == {"create", "delegate", "redelegate", "cancel", "undelegate", "other"}
Q(b) == b \div 20
Offs(b) == { 0 - Q(b) - 1, 0 - Q(b), 0 - 1, 0, 1, Q(b), Q(b) + 1 }
Amts(b) == { 1, Q(b), Q(b) + 1 }
Txs(b) == UNION { [1 .. n -> [kind : Kinds, amt : Amts(b)]] : n \in 1 .. MaxLen }
Init == \E b \in Bases : \E o \in Offs(b) : \E tx \in Txs(b) : c = [base |-> b, bonded |-> b + o, tx |-> tx]
Next == UNCHANGED c
Emit == PrintT(<<"CASE", ToJson(c)>>)
\* the two rules are told apart by the enumeration (checked as "never" properties that MUST be violated... instead: counted)
Differ == Admit(c.base, c.bonded, c.tx) # AdmitEach(c.base, c.bonded, c.tx)
=============================================================================
