INIT Init
NEXT Next
