------------------------- MODULE Aggregation_Trace -------------------------
(* C06 binding: every recorded call of the real Keeper.WeightedMedian /        *)
(* Keeper.WeightedMode must satisfy the definitions of Aggregation.tla.        *)
(* Lines of one case (same report multiset, different arrival orders and        *)
(* repeated calls) must all choose the same value: `chosen` is inferred from    *)
(* the first line of a case and must be respected by the later ones.            *)
EXTENDS Aggregation, Json, TLC, TraceLib
Trace == ndJsonDeserialize("trace.ndjson")
VARIABLES l, viol, cur, chosen
tvars == <<l, viol, cur, chosen>>

Init == l = 1 /\ viol = {} /\ cur = "" /\ chosen = {}

Key(e) == IF e.ev = "Median" THEN e.agg.val ELSE e.agg.raw

Clauses(e) ==
  IF ~e.ok THEN {"Total_function_on_valid_input"}
  ELSE
    (IF e.ev = "Median"
       THEN (IF IsWeightedMedian(e.rs, e.agg.val) THEN {} ELSE {"IsWeightedMedian"})
       ELSE (IF IsWeightedMode(e.rs, e.agg.raw) THEN {} ELSE {"IsWeightedMode"}))
    \cup (IF PowerIsTotal(e.rs, e.agg) THEN {} ELSE {"PowerIsTotal"})
    \cup (IF ListsEachOnce(e.rs, e.agg) THEN {} ELSE {"ListsEachOnce"})
    \cup (IF ReporterReportedIt(e.rs, e.agg) THEN {} ELSE {"ReporterReportedIt"})
    \cup (IF IndexNamesReporter(e.rs, e.agg) THEN {} ELSE {"IndexNamesReporter"})
    \cup (IF e.case = cur /\ chosen # {} /\ Key(e) \notin chosen THEN {"OrderIndependent"} ELSE {})

Step ==
  /\ l <= Len(Trace)
  /\ LET e == Trace[l] IN
       /\ cur' = e.case
       /\ chosen' = IF e.case = cur /\ chosen # {} THEN chosen ELSE IF e.ok THEN {Key(e)} ELSE {}
       /\ viol' = AddViol(viol, l, Clauses(e))
       /\ l' = l + 1
Spec == Init /\ [][Step]_tvars
Done == (l = Len(Trace) + 1) => PrintT(<<"VIOLS", ToJson(viol)>>)
Accepted == TLCGet("stats").diameter - 1 = Len(Trace)
=============================================================================
