SPECIFICATION SimSpec
CONSTANTS
  CL <- MC_CLSim
  OtherQ = {"x"}
  DepQ = {"d"}
  Reps = {"r1", "r2"}
  WinOf <- MC_WinSim
  TipAmts = {1000000, 50}
  MaxH = 1000
  MaxTips = 1000
  MCDepWin = 2000
  D = 60
INVARIANT Inv Emit
CHECK_DEADLOCK FALSE
