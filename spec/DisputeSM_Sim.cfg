SPECIFICATION SimSpec
CONSTANTS
  DayNs <- MC_Day
  Hashes = {"h1", "h2"}
  Voters = {"team", "user", "rep"}
  Q = 3
  Slash = 40000
  Fees = {10000, 40000}
  Gaps = {1, 2, 3, 4, 5, 6, 7}
  MaxId = 6
  MaxNow = 400
  D = 30
INVARIANT Inv Emit
CHECK_DEADLOCK FALSE
