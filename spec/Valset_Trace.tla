---------------------------- MODULE Valset_Trace ----------------------------
(* C16 binding over recorded histories (projection valset).                   *)
EXTENDS Valset, Json, TLC, TraceLib
CONSTANT KNOWN
Trace == ndJsonDeserialize("trace.ndjson")
VARIABLES l, viol, hist, pv   \* pv: previous projection
tvars == <<l, viol, hist, pv>>
Init == l = 1 /\ viol = {} /\ hist = 0 /\ pv = <<>>

Last(s) == s[Len(s)]
Filled(c) == { i \in DOMAIN c.filled : c.filled[i] }
PosIn(set, addr) == { i \in DOMAIN set : set[i].evm = addr }

\* shape of the whole checkpoint chain after any operation
ChainClauses(v) ==
  LET c == v.cps IN
  (IF \A i \in DOMAIN c : c[i].idx = i - 1 /\ c[i].tsidx = i - 1 THEN {} ELSE {"CheckpointIndexesContiguous"})
  \cup (IF \A i \in 2 .. Len(c) : c[i - 1].ts \prec c[i].ts THEN {} ELSE {"CheckpointTimestampsStrictlyIncrease"})
  \cup (IF \A i \in DOMAIN c : c[i].thr = Threshold(c[i].set) /\ c[i].hash = c[i].rehash /\ c[i].cp = c[i].recp /\ c[i].pts = c[i].ts
        THEN {} ELSE {"StoredHashThresholdAndSetConsistent"})
  \cup (IF \A i \in DOMAIN c : Len(c[i].filled) = (IF i = 1 THEN Len(c[1].set) ELSE Len(c[i - 1].set)) THEN {} ELSE {"SlotsCorrespondToPreviousSetMembers"})
  \cup (IF c # <<>> /\ v.latest # Len(c) - 1 THEN {"LatestIndexPointsToLastCheckpoint"} ELSE {})
  \cup (IF \A i \in 2 .. Len(c) : Followable(c[i - 1], c[i], Len(c[i].filled), Filled(c[i])) THEN {} ELSE {"TwoThirdsOfPreviousSetCanAlwaysUpdateTheContract"})

CheckEnd(e, v) ==
  LET c == v.cps
      had == pv.cps
      created == Len(c) > Len(had)
      lastTs == IF had = <<>> THEN Zero ELSE Last(had).ts
      \* candidate = what the bridge set must be now; known only implicitly: checked against the new set when one is created,
      \* and against the need rule through the recorded validators
      M == Members(v.vals)
  IN
  (IF created
   THEN (IF Len(c) = Len(had) + 1 /\ IsBridgeSet(Last(c).set, v.vals) /\ Last(c).ts = e.t /\ v.cur = Last(c).set THEN {} ELSE {"NewCheckpointRecordsTheCurrentBridgeSet"})
        \cup (IF NeedNew(pv.hascur, pv.cur, lastTs, Last(c).set, e.t) THEN {} ELSE {"CheckpointOnlyWhenShiftedFivePercentOrStale"})
   ELSE (IF v.cur = pv.cur THEN {} ELSE {"SavedSetChangesOnlyWithACheckpoint"})
        \cup (IF had # <<>> /\ Stale(lastTs, e.t) THEN {"StaleCheckpointIsRenewed"} ELSE {})
        \cup (IF pv.hascur /\ Range(pv.cur) # M /\ (LET cand == [i \in 1 .. Cardinality(M) |-> CHOOSE x \in M : TRUE] IN TRUE)
                 /\ Total(pv.cur) \preceq (N(20) ** (LET A == { x.evm : x \in Range(pv.cur) \cup M }
                                                        P(S, a) == LET I == { x \in S : x.evm = a } IN NSum([x \in I |-> x.pow], I)
                                                    IN NSum([a \in A |-> AbsDiff(P(Range(pv.cur), a), P(M, a))], A)))
              THEN {"FivePercentShiftCreatesCheckpoint"} ELSE {}))

CheckSign(e, v) ==
  \* a stored signature lands only in the slot of the signer's EVM address in the PREVIOUS set
  LET c == v.cps
      n == Len(c)
  IN IF ~e.ok \/ n = 0 THEN (IF v = pv THEN {} ELSE {"RejectedSignatureChangesNothing"})
     ELSE LET evm == (CHOOSE x \in Range(v.vals) : x.op = e.val).evm
              prevSet == IF n = 1 THEN <<>> ELSE c[n - 1].set
              expected == Filled(pv.cps[n]) \cup (IF n = 1 THEN {} ELSE PosIn(prevSet, evm))
          IN (IF Filled(c[n]) = expected THEN {} ELSE {"SignatureLandsInSignersSlotOfPreviousSet"})
             \cup (IF \A i \in 1 .. n - 1 : c[i] = pv.cps[i] THEN {} ELSE {"OlderCheckpointsUntouched"})

Check(e) ==
  LET v == e.post.valset IN
  ChainClauses(v)
  \cup (IF e.ev = "EndBlock" /\ e.ok THEN CheckEnd(e, v)
        ELSE IF e.ev = "SignValset" THEN CheckSign(e, v)
        ELSE (IF v.cps = pv.cps /\ v.cur = pv.cur THEN {} ELSE {"CheckpointsChangeOnlyInEndBlock_" \o e.ev}))

Step ==
  /\ l <= Len(Trace)
  /\ LET e == Trace[l]
         reset == e.hist # hist
     IN /\ hist' = e.hist
        /\ pv' = e.post.valset
        /\ viol' = IF reset THEN viol ELSE AddViol(viol, l, Check(e))
        /\ l' = l + 1
Spec == Init /\ [][Step]_tvars
Done == (l = Len(Trace) + 1) => PrintT(<<"VIOLS", ToJson(viol)>>)
Accepted == TLCGet("stats").diameter - 1 = Len(Trace)
=============================================================================
