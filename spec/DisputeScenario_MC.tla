-------------------------- MODULE DisputeScenario_MC --------------------------
(* Scenarios of one dispute from report to settlement, as the product of the     *)
(* dimensions the dispute properties quantify over (C11: categories, fee         *)
(* payment patterns, staking history between report and dispute; C05: what is     *)
(* taken and put back where; C13: outcomes and claims).  TLC enumerates the       *)
(* product; every scenario is executed on a fresh real chain and the recorded     *)
(* trace is validated by Dispute_Fund_Trace, Stake_Trace and Dispute_Settle_Trace. *)
(*   cat     1 warning / 2 minor / 3 major                                        *)
(*   backer  who moves stake between report and dispute: the reporter itself or    *)
(*           one of its selectors                                                  *)
(*   move    none | undel_part | undel_all | redel_part | redel_all |             *)
(*           redel_then_undel | valjail (its validator leaves the bonded set) |    *)
(*           undel_two_small_first | undel_two_big_first (two unbonding entries)   *)
(*   fund    full | parts (completed by a second payer) | short (stops between     *)
(*           95% and 100%, then completed) | expire (never completed)             *)
(*   src     balance | bond (fee paid from another reporter's stake)              *)
(*   result  support | against | invalid | noquorum (nobody but one small voter) | *)
(*           novote (nobody at all)                                                *)
(*   order   plain | rep_first | sel_first: whether the disputed reporter and its   *)
(*           selectors vote too, the reporter before or after them                 *)
(*   back    none | valjail | valunjail: what happens to the backer's validator    *)
(*           between slashing and the return of stake                              *)
EXTENDS TLC, Json
VARIABLE c
Cats == {1, 2, 3}
Backers == {"reporter", "selector"}
Moves == {"none", "undel_part", "undel_all", "redel_part", "redel_all", "redel_then_undel", "valjail", "undel_two_small_first", "undel_two_big_first"}
Funds == {"full", "parts", "short", "expire"}
Srcs == {"balance", "bond"}
Results == {"support", "against", "invalid", "noquorum", "novote"}
Orders == {"plain", "rep_first", "sel_first"}
Backs == {"none", "valjail", "valunjail"}
Init == \E cat \in Cats, b \in Backers, m \in Moves, f \in Funds, s \in Srcs, r \in Results, k \in Backs, o \in Orders :
          \* an expired dispute has no outcome; stake comes back only for against / invalid
          /\ (f = "expire" => r = "support" /\ k = "none")
          /\ (k # "none" => r \in {"against", "invalid", "novote"})
          \* the voting order is varied on the plain staking history only
          /\ (o # "plain" => m = "none" /\ k = "none" /\ s = "balance" /\ f # "expire" /\ r \notin {"noquorum", "novote"})
          /\ c = [cat |-> cat, backer |-> b, move |-> m, fund |-> f, src |-> s, result |-> r, back |-> k, order |-> o]
Next == UNCHANGED c
Emit == PrintT(<<"CASE", ToJson(c)>>)
=============================================================================
