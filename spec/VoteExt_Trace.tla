---------------------------- MODULE VoteExt_Trace ----------------------------
(* C17 binding: each line is one abstract commit materialised and run through   *)
(* the real handlers (see harness/h/c17.go).                                    *)
EXTENDS VoteExt, Json, TLC, TraceLib
CONSTANT KNOWN
Trace == ndJsonDeserialize("trace.ndjson")
VARIABLES l, viol
tvars == <<l, viol>>
Init == l = 1 /\ viol = {}
Range(s) == { s[i] : i \in DOMAIN s }
Trues(f) == { i \in DOMAIN f : f[i] }

Check(e) ==
  LET c == e.votes
      regs == Regs(c, e.hasevm)
      vs == VsOps(c)
  IN
  (IF e.panics = <<>> THEN {} ELSE {"HandlersNeverPanic"})
  \* the pre-blocker applies a proposal that ProcessProposal accepted: an error here would fail FinalizeBlock on every node
  \cup (IF "preblock_ok" \in DOMAIN e /\ ~e.preblock_ok THEN {"PreBlockerAppliesAnAcceptedProposal"} ELSE {})
  \cup (IF e.prepared THEN {} ELSE (IF e.panics = <<>> THEN {"HonestProposerAlwaysProducesAProposal"} ELSE {}))
  \cup (IF ~e.prepared THEN {}
        ELSE
          (IF e.inj.regops = regs /\ e.inj.regevms = [k \in DOMAIN regs |-> e.ownevm[regs[k]]] THEN {} ELSE {"RegistrationsOnlyFromOwnValidSignaturesOfUnregisteredValidators"})
          \cup (IF e.inj.vsops = vs THEN {} ELSE {"ValsetSignaturesExactlyThoseInTheCommit"})
          \cup (IF e.inj.attops = AttOpsFrom(c, 1) /\ e.inj.attsnaps = AttSnapsFrom(c, 1) THEN {} ELSE {"AttestationsExactlyThoseInTheCommit"})
          \cup (IF ValidCommit(c) THEN (IF e.process = "ACCEPT" THEN {} ELSE {"HonestProposalFromValidCommitIsAccepted"})
                ELSE (IF e.process = "REJECT" THEN {} ELSE {"ProposalWithInvalidCommitIsRejected"}))
          \cup (IF e.process = "ACCEPT" /\ \E i \in DOMAIN e.muts : e.muts[i].status # "REJECT" THEN {"TamperedInjectedDataIsRejected"} ELSE {})
          \cup (IF e.garbagetx = "REJECT" THEN {} ELSE {"ArbitraryInjectedBytesAreRejected"})
          \cup (IF e.process # "ACCEPT" THEN {}
                ELSE
                  \* state written before the block = exactly the accepted data
                  (IF \A v \in DOMAIN e.hasevm :
                        IF e.hasevm[v] THEN v \in DOMAIN e.evmafter
                        ELSE (v \in DOMAIN e.evmafter) = (v \in Range(regs)) /\ (v \in Range(regs) => e.evmafter[v] = e.ownevm[v])
                   THEN {} ELSE {"EvmAddressRegisteredOnceFromOwnSignatures"})
                  \cup (IF "valset" \in DOMAIN e.slotsafter
                        THEN (IF Trues(e.slotsafter.valset) = Trues(e.slotsbefore.valset) \cup
                                   { e.positions[c[i].val].prev : i \in { j \in Committed(c) : c[j].shape \in {"valset", "valsetonly", "all"} /\ e.positions[c[j].val].prev > 0 } }
                              THEN {} ELSE {"ValsetSignatureLandsOnlyInSendersSlot"})
                        ELSE {})
                  \cup (IF \A s \in {"s1", "s2"} : s \in DOMAIN e.slotsafter =>
                             Trues(e.slotsafter[s]) = Trues(e.slotsbefore[s]) \cup
                                { e.positions[c[i].val].cur : i \in { j \in Committed(c) : s \in FillsOf(c[j].shape) /\ e.positions[c[j].val].cur > 0 } }
                        THEN {} ELSE {"AttestationLandsOnlyInSendersSlot"})))

Step == /\ l <= Len(Trace)
        /\ viol' = AddViol(viol, l, Check(Trace[l]))
        /\ l' = l + 1
Spec == Init /\ [][Step]_tvars
Done == (l = Len(Trace) + 1) => PrintT(<<"VIOLS", ToJson(viol)>>)
Accepted == TLCGet("stats").diameter - 1 = Len(Trace)
=============================================================================
