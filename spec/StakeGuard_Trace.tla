-------------------------- MODULE StakeGuard_Trace --------------------------
(* C18 binding: (1) every enumerated case replayed through the real ante        *)
(* decorator on the production app: accepted <=> Admit; (2) recorded histories:  *)
(* the tracker item changes only in an end-block at/after its expiry, to the      *)
(* bonded total of that moment.                                                   *)
EXTENDS StakeGuard, Json, TLC, TraceLib
CONSTANT KNOWN
Trace == ndJsonDeserialize("trace.ndjson")
VARIABLES l, viol, hist, base, expiry
tvars == <<l, viol, hist, base, expiry>>
Init == l = 1 /\ viol = {} /\ hist = 0 /\ base = Zero /\ expiry = Zero

Check(e) ==
  IF e.ev = "AnteCase" THEN
     LET a == Admit(e.base, e.bonded, e.tx) IN
     \* e.ok: the transaction, really signed, through the ante handler the production app has installed (whole chain);
     \* e.okdec: the same messages through the stake-change decorator alone
     (IF e.ok /\ ~a THEN {"AdmittedOnlyWithinFivePercentOfBaseline"} ELSE {})
     \cup (IF ~e.ok /\ a THEN {"WithinBoundIsAdmitted"} ELSE {})
     \cup (IF "okdec" \in DOMAIN e /\ e.okdec /\ ~a THEN {"AdmittedOnlyWithinFivePercentOfBaseline"} ELSE {})
     \cup (IF "okdec" \in DOMAIN e /\ ~e.okdec /\ a THEN {"WithinBoundIsAdmitted"} ELSE {})
  ELSE IF "tracker" \in DOMAIN e.post.reporter THEN
     LET tr == e.post.reporter.tracker IN
     IF e.ev = "EndBlock" /\ e.ok
     \* block times and the stored expiry have nanosecond resolution: compared in ns (a millisecond comparison raised a
     \* false alarm when expiry and block time fell into the same millisecond)
     THEN (IF RefreshAt(base, expiry, e.bonded, e.tn, tr.amt, tr.expn, TwelveHoursMs ** Pow10(6)) THEN {} ELSE {"BaselineRefreshedOnlyAfterTwelveHours"})
     ELSE (IF tr.amt = base /\ tr.expn = expiry THEN {} ELSE {"BaselineChangesOnlyInEndBlock"})
  ELSE {}

Step ==
  /\ l <= Len(Trace)
  /\ LET e == Trace[l]
         reset == e.hist # hist
         hasTr == e.ev # "AnteCase" /\ "tracker" \in DOMAIN e.post.reporter
     IN /\ hist' = e.hist
        /\ base' = IF hasTr THEN e.post.reporter.tracker.amt ELSE base
        /\ expiry' = IF hasTr THEN e.post.reporter.tracker.expn ELSE expiry
        /\ viol' = IF reset /\ e.ev # "AnteCase" THEN viol ELSE AddViol(viol, l, Check(e))
        /\ l' = l + 1
Spec == Init /\ [][Step]_tvars
Done == (l = Len(Trace) + 1) => PrintT(<<"VIOLS", ToJson(viol)>>)
Accepted == TLCGet("stats").diameter - 1 = Len(Trace)
=============================================================================
