SPECIFICATION Spec
CONSTANTS
  CL <- MC_CL2
  OtherQ = {"c"}
  DepQ = {"d"}
  Reps = {"r1", "r2"}
  WinOf <- MC_Win
  TipAmts = {100}
  MaxH = 6
  MaxTips = 2
  MCDepWin = 3
  DepositWindow <- MCDepWin
INVARIANT Inv
PROPERTIES RotationInOrder RotationOnlyWhenClosed AggregatesAppendOnly TipStaysUntilPaid
CHECK_DEADLOCK FALSE
