------------------------------- MODULE Dispute -------------------------------
(* Disputes: funding and slashing (C11), lifecycle / votes / tally (C12),       *)
(* settlement (C13).  Enumerations as stored by the chain:                      *)
(*   category  1 warning (1%), 2 minor (5%), 3 major (100%)                     *)
(*   status    0 prevote, 1 voting, 2 resolved, 3 unresolved, 4 failed          *)
(*   choice    0 invalid, 1 support, 2 against                                  *)
(*   result    0 none, 1 support, 2 against, 3 invalid, 4/5/6 the same without  *)
(*             quorum                                                           *)
EXTENDS Num, Integers, Sequences, FiniteSets

Range(s) == { s[i] : i \in DOMAIN s }
E6 == Pow10(6)
DayMs == N(86400000)
DayNs == DayMs ** E6    \* dispute deadlines are compared at the block time's nanosecond resolution
PREVOTE == 0  VOTING == 1  RESOLVED == 2  UNRESOLVED == 3  FAILED == 4

\* ---------------- C11: funding ----------------
\* slash amount = category share of the stake the report's power stands for (whole tokens * 10^6)
Pct(cat) == IF cat = 1 THEN N(1) ELSE IF cat = 2 THEN N(5) ELSE N(100)
SlashAmount(cat, power) == (Pct(cat) ** (power ** E6)) // N(100)
JailSeconds(cat) == IF cat = 1 THEN N(0) ELSE N(600)
Jails(cat) == cat \in {1, 2}

\* per-backer apportioning: snap = recorded stake snapshot [total, origins [del, val, amt]];
\* taken(b) = amount taken from backer b (sum over validators); each within one smallest unit PER SNAPSHOT ENTRY of
\* slash * snapshot(b) / snapshot total
SnapOf(snap, b) == LET I == { i \in DOMAIN snap.origins : snap.origins[i].del = b } IN NSum([i \in I |-> snap.origins[i].amt.mag], I)
EntriesOf(snap, b) == Cardinality({ i \in DOMAIN snap.origins : snap.origins[i].del = b })
Backers(snap) == { snap.origins[i].del : i \in DOMAIN snap.origins }
ProportionalTake(slash, snap, b, taken) ==
  \* | taken * total - slash * snap(b) | <= entries(b) * total
  AbsDiff(taken ** snap.total.mag, slash ** SnapOf(snap, b)) \preceq (N(EntriesOf(snap, b)) ** snap.total.mag)

\* ---------------- C12: lifecycle ----------------
\* allowed status changes of ONE dispute id (a new round is a new id that starts in voting)
StatusStep(s1, s2) ==
  \/ s1 = s2
  \/ s1 = PREVOTE /\ s2 \in {VOTING, FAILED}
  \/ s1 = VOTING /\ s2 \in {RESOLVED, UNRESOLVED}
  \/ s1 = UNRESOLVED /\ s2 = RESOLVED

\* fee of round r+1 (r = rounds so far): min(slash, 5% of slash * 2^r)
RECURSIVE Pow2(_)
Pow2(k) == IF k = 0 THEN N(1) ELSE N(2) ** Pow2(k - 1)
RoundFee(slash, r) == NMin(slash, (slash // N(20)) ** Pow2(r))

\* ---------------- C12: tally ----------------
\* counts cn: [users, reporters, holders, team] each <<support, against, invalid>>
\* totals tot: [users, reporters, supply] as of the dispute's block (supply: now)
\* Each participating group contributes its support/against/invalid fractions equally (one group = 10^6 points,
\* computed with 18 further decimals and truncated once at the end, as fixed-point arithmetic does).
E18 == Pow10(18)
Sum3(g) == g[1] ++ g[2] ++ g[3]
Frac18(g, c) == IF IsZero(Sum3(g)) THEN Zero ELSE ((g[c] ** E6) ** E18) // Sum3(g)
\* participation of a group: 25% * cast / total, in units of 10^-6 percent (0 when the group's total is 0)
Part(total, cast) == IF IsZero(total) THEN Zero ELSE ((cast ** E6) ** N(100)) // (total ** N(4))
TeamVoted(cn) == ~IsZero(Sum3(cn.team))
Quorum == N(51) ** E6
\* first stage: team, users, reporters
Stage1Part(cn, tot) == (IF TeamVoted(cn) THEN N(25) ** E6 ELSE Zero)
                       ++ (IF IsZero(Sum3(cn.users)) THEN Zero ELSE Part(tot.users, Sum3(cn.users)))
                       ++ Part(tot.reporters, Sum3(cn.reporters))
Stage1Sum18(cn, c) == (IF TeamVoted(cn) /\ ~IsZero(cn.team[c]) THEN E6 ** E18 ELSE Zero) ++ Frac18(cn.users, c) ++ Frac18(cn.reporters, c)
\* second stage adds the token holders
Stage2Part(cn, tot) == Stage1Part(cn, tot) ++ Part(tot.supply, Sum3(cn.holders))
Stage2Sum18(cn, c) == Stage1Sum18(cn, c) ++ Frac18(cn.holders, c)
\* the decided choice given the three sums: the strict maximum; invalid when there is none (ties, or nothing cast)
Winner(s, a, i) == IF a \prec s /\ i \prec s THEN 1 ELSE IF s \prec a /\ i \prec a THEN 2 ELSE 3
\* The same sums as EXACT rationals over the common denominator D = product of the participating groups' cast totals:
\* Exact(c) = sum over groups of cast_c * D / cast   (+ D for the team's choice)
GroupsOf(cn, stage2) == { g \in (IF stage2 THEN {"users", "reporters", "holders"} ELSE {"users", "reporters"}) : ~IsZero(Sum3(cn[g])) }
RECURSIVE ProdOf(_, _)
ProdOf(cn, G) == IF G = {} THEN One ELSE LET g == CHOOSE x \in G : TRUE IN Sum3(cn[g]) ** ProdOf(cn, G \ {g})
Exact(cn, stage2, c) ==
  LET G == GroupsOf(cn, stage2)
      D == ProdOf(cn, G)
  IN NSum([g \in G |-> (cn[g][c] ** D) // Sum3(cn[g])], G) ++ (IF TeamVoted(cn) /\ ~IsZero(cn.team[c]) THEN D ELSE Zero)
\* fixed-point arithmetic truncates the (quartered) sums to 10^-6 of a group before comparing: two sums closer than that
\* may legitimately be seen as equal
NearTie(cn, stage2) ==
  LET D == ProdOf(cn, GroupsOf(cn, stage2))
      close(x, y) == (AbsDiff(x, y) ** (E6 // N(4))) \prec D
      s == Exact(cn, stage2, 1) a == Exact(cn, stage2, 2) i == Exact(cn, stage2, 3)
      top == NMax(s, NMax(a, i))
  IN Cardinality({ c \in 1 .. 3 : close(Exact(cn, stage2, c), top) }) > 1
\* admissible decided choices: the exact winner, the fixed-point winner, and invalid when the best sums are within truncation
Choices(cn, stage2, quartered) ==
  {Winner(Exact(cn, stage2, 1), Exact(cn, stage2, 2), Exact(cn, stage2, 3))}
  \cup (IF NearTie(cn, stage2) THEN {3} ELSE {})
  \cup { IF stage2 THEN Winner(Stage2Sum18(cn, 1) // E18, Stage2Sum18(cn, 2) // E18, Stage2Sum18(cn, 3) // E18)
         ELSE Winner((Stage1Sum18(cn, 1) // N(4)) // E18, (Stage1Sum18(cn, 2) // N(4)) // E18, (Stage1Sum18(cn, 3) // N(4)) // E18) }
\* admissible results: 1/2/3 with quorum, 4/5/6 (= 3 + choice) by majority of votes cast after the voting period, 0 = still voting
TallyResults(cn, tot, voteEnded) ==
  IF Quorum \preceq Stage1Part(cn, tot) THEN Choices(cn, FALSE, TRUE)
  ELSE IF Quorum \preceq Stage2Part(cn, tot) THEN Choices(cn, TRUE, FALSE)
  ELSE IF voteEnded THEN { 3 + c : c \in Choices(cn, TRUE, FALSE) }
  ELSE {0}
TallyResult(cn, tot, voteEnded) == CHOOSE r \in TallyResults(cn, tot, voteEnded) : TRUE
\* no voters at all after the voting period: decided as invalid without quorum
NoVotes(cn) == IsZero(Sum3(cn.users)) /\ IsZero(Sum3(cn.reporters)) /\ IsZero(Sum3(cn.holders)) /\ ~TeamVoted(cn)
=============================================================================
