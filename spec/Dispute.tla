------------------------------- MODULE Dispute -------------------------------
(* Disputes: funding and slashing (C11), lifecycle / votes / tally (C12),       *)
(* settlement (C13).  Enumerations as stored by the chain:                      *)
(*   category  1 warning (1%), 2 minor (5%), 3 major (100%)                     *)
(*   status    0 prevote, 1 voting, 2 resolved, 3 unresolved, 4 failed          *)
(*   choice    0 invalid, 1 support, 2 against                                  *)
(*   result    0 none, 1 support, 2 against, 3 invalid, 4/5/6 the same without  *)
(*             quorum                                                           *)
EXTENDS Num, Integers, Sequences, FiniteSets

Range(s) == { s[i] : i \in DOMAIN s }
E6 == Pow10(6)
DayMs == N(86400000)
DayNs == DayMs ** E6    \* dispute deadlines are compared at the block time's nanosecond resolution
PREVOTE == 0  VOTING == 1  RESOLVED == 2  UNRESOLVED == 3  FAILED == 4

\* ---------------- C11: funding ----------------
\* slash amount = category share of the stake the report's power stands for (whole tokens * 10^6)
Pct(cat) == IF cat = 1 THEN N(1) ELSE IF cat = 2 THEN N(5) ELSE N(100)
SlashAmount(cat, power) == (Pct(cat) ** (power ** E6)) // N(100)
JailSeconds(cat) == IF cat = 1 THEN N(0) ELSE N(600)
Jails(cat) == cat \in {1, 2}

\* per-backer apportioning: snap = recorded stake snapshot [total, origins [del, val, amt]];
\* taken(b) = amount taken from backer b (sum over validators); each within one smallest unit PER SNAPSHOT ENTRY of
\* slash * snapshot(b) / snapshot total
SnapOf(snap, b) == LET I == { i \in DOMAIN snap.origins : snap.origins[i].del = b } IN NSum([i \in I |-> snap.origins[i].amt.mag], I)
EntriesOf(snap, b) == Cardinality({ i \in DOMAIN snap.origins : snap.origins[i].del = b })
Backers(snap) == { snap.origins[i].del : i \in DOMAIN snap.origins }
ProportionalTake(slash, snap, b, taken) ==
  \* | taken * total - slash * snap(b) | <= entries(b) * total
  AbsDiff(taken ** snap.total.mag, slash ** SnapOf(snap, b)) \preceq (N(EntriesOf(snap, b)) ** snap.total.mag)

\* ---------------- C12: lifecycle ----------------
\* allowed status changes of ONE dispute id (a new round is a new id that starts in voting)
StatusStep(s1, s2) ==
  \/ s1 = s2
  \/ s1 = PREVOTE /\ s2 \in {VOTING, FAILED}
  \/ s1 = VOTING /\ s2 \in {RESOLVED, UNRESOLVED}
  \/ s1 = UNRESOLVED /\ s2 = RESOLVED

\* fee of round r+1 (r = rounds so far): min(slash, 5% of slash * 2^r)
RECURSIVE Pow2(_)
Pow2(k) == IF k = 0 THEN N(1) ELSE N(2) ** Pow2(k - 1)
RoundFee(slash, r) == NMin(slash, (slash // N(20)) ** Pow2(r))

\* ---------------- C12: tally ----------------
\* counts: [users, reporters, holders, team] each <<support, against, invalid>> ; totals: [users, reporters, holders]
\* everything scaled by 10^6 (one group = 10^6 "points"; participation in units of 10^-6 percent)
Sum3(g) == g[1] ++ g[2] ++ g[3]
\* a group's contribution to choice c (1 support, 2 against, 3 invalid): cast_c / cast  (0 if nobody in the group voted)
Frac(g, c) == IF IsZero(Sum3(g)) THEN Zero ELSE (g[c] ** E6) // Sum3(g)
\* participation of a group: 25% * cast / total, in units of 10^-6 percent
Part(total, cast) == IF IsZero(total) THEN Zero ELSE ((cast ** E6) ** N(100)) // (total ** N(4))
TeamVoted(cn) == ~IsZero(Sum3(cn.team))
Quorum == N(51) ** E6
\* first stage: team, users, reporters
Stage1Part(cn, tot) == (IF TeamVoted(cn) THEN N(25) ** E6 ELSE Zero) ++ (IF IsZero(Sum3(cn.users)) THEN Zero ELSE Part(tot.users, Sum3(cn.users))) ++ Part(tot.reporters, Sum3(cn.reporters))
Stage1Sum(cn, c) == (IF TeamVoted(cn) /\ ~IsZero(cn.team[c]) THEN E6 ELSE Zero) ++ Frac(cn.users, c) ++ Frac(cn.reporters, c)
\* second stage adds the token holders
Stage2Part(cn, tot) == Stage1Part(cn, tot) ++ Part(tot.supply, Sum3(cn.holders))
Stage2Sum(cn, c) == Stage1Sum(cn, c) ++ Frac(cn.holders, c)
\* the decided choice given three sums: strict maximum, invalid when there is none (ties)
Winner(s, a, i) == IF a \prec s /\ i \prec s THEN 1 ELSE IF s \prec a /\ i \prec a THEN 2 ELSE 3
\* result code: with quorum 1/2/3 ; without 4/5/6 ; 0 = still voting
\* (sums of the quorum stage are divided by the number of groups before comparison, which does not change the order
\*  except through truncation: the division is kept so that exact ties by truncation are decided identically)
TallyResult(cn, tot, voteEnded) ==
  IF Quorum \preceq Stage1Part(cn, tot)
  THEN Winner(Stage1Sum(cn, 1) // N(4), Stage1Sum(cn, 2) // N(4), Stage1Sum(cn, 3) // N(4))
  ELSE IF Quorum \preceq Stage2Part(cn, tot)
  THEN Winner(Stage2Sum(cn, 1), Stage2Sum(cn, 2), Stage2Sum(cn, 3))
  ELSE IF voteEnded
  THEN 3 + Winner(Stage2Sum(cn, 1), Stage2Sum(cn, 2), Stage2Sum(cn, 3))
  ELSE 0
=============================================================================
