INIT Init
NEXT Next
CONSTANTS
  Vals = {0, 1, 2, 3, 4, 5, 6, 7}
  MaxLen = 4
INVARIANTS MedianIsMiddle Emit
CHECK_DEADLOCK FALSE
