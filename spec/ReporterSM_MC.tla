---------------------------- MODULE ReporterSM_MC ----------------------------
(* All interleavings of create / select / switch / remove / report / time over  *)
(* a few accounts.  Time unit: a third of the unbonding period (Unbond = 3).    *)
EXTENDS ReporterSM, TLC
CONSTANTS Accounts, Cap0, Unbond, MaxNow, AllowRemoval
VARIABLES now, sel, reported, served, cap, below
\* served: selector -> set of [rep, t]: reports that counted the selector's stake (history)
vars == <<now, sel, reported, served, cap, below>>
Init == now = 1 /\ sel = <<>> /\ reported = {} /\ served = [a \in Accounts |-> {}] /\ cap = Cap0 /\ below = {}

Create(a) == CreateOk(sel, a) /\ sel' = CreateNext(sel, a) /\ UNCHANGED <<now, reported, served, cap, below>>
Select(s, r) == SelectOk(sel, s, r, cap) /\ s \notin below /\ sel' = SelectNext(sel, s, r) /\ UNCHANGED <<now, reported, served, cap, below>>
Switch(s, r) == SwitchOk(sel, s, r, cap) /\ s \notin below /\ sel[s].rep # r /\ sel' = SwitchNext(sel, reported, s, r, now, Unbond) /\ UNCHANGED <<now, reported, served, cap, below>>
Remove(s) == AllowRemoval /\ RemoveOk(sel, s, s \in below, cap) /\ sel' = RemoveNext(sel, s) /\ UNCHANGED <<now, reported, served, cap, below>>
Report(r) ==
  /\ IsReporter(sel, r) /\ CountedFor(sel, r, now) # {}
  /\ reported' = reported \cup {r}
  /\ served' = [a \in Accounts |-> IF a \in CountedFor(sel, r, now) THEN served[a] \cup {[rep |-> r, t |-> now]} ELSE served[a]]
  /\ UNCHANGED <<now, sel, cap, below>>
\* environment: time passes; governance lowers the cap; a selector's bonded stake falls below / returns above the minimum
Tick == now < MaxNow /\ now' = now + 1 /\ UNCHANGED <<sel, reported, served, cap, below>>
LowerCap == AllowRemoval /\ cap > 1 /\ cap' = cap - 1 /\ UNCHANGED <<now, sel, reported, served, below>>
Stake(s) == AllowRemoval /\ below' = (IF s \in below THEN below \ {s} ELSE below \cup {s}) /\ UNCHANGED <<now, sel, reported, served, cap>>
Next == (\E a \in Accounts : Create(a) \/ Remove(a) \/ Report(a) \/ Stake(a)) \/ (\E s, r \in Accounts : Select(s, r) \/ Switch(s, r)) \/ Tick \/ LowerCap
Spec == Init /\ [][Next]_vars

\* the consequence C10 states
SameStakeNeverServesTwoReportersWithinAWindow ==
  \A a \in Accounts : \A x, y \in served[a] : x.rep # y.rep => (x.t + Unbond <= y.t \/ y.t + Unbond <= x.t)
EverySelectorHasOneReporter == \A s \in DOMAIN sel : IsReporter(sel, sel[s].rep)
CapRespectedUnlessLowered == AllowRemoval \/ \A r \in DOMAIN sel : Cardinality(SelsOf(sel, r)) <= cap
Inv == SameStakeNeverServesTwoReportersWithinAWindow /\ EverySelectorHasOneReporter /\ CapRespectedUnlessLowered
LocksNeverShorten == [][\A s \in DOMAIN sel : s \in DOMAIN sel' => sel[s].locked <= sel'[s].locked]_vars
=============================================================================
