SPECIFICATION Spec
CONSTANT KNOWN = {}
INVARIANT Track
POSTCONDITION Accepted
CHECK_DEADLOCK FALSE
