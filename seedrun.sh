#!/bin/bash
# seedrun.sh <seeded-name> <check-ids...> : apply stored seeded patch to /repo, run checks, revert, update result file
NAME=$1; shift
cd /verif
git -C /repo apply /verif/seeded/$NAME/patch.diff || { echo "patch does not apply"; exit 2; }
echo "{\"confirmed\": \"demo passes on clean tree, fails with patch (confirmed in a scratch worktree)\", \"checks\": {" > seeded/$NAME/verif_result.json
for c in "$@"; do ./check $c > /tmp/seed_check_$c.txt 2>&1; rc=$?; echo "\"$c\": {\"quick_rc\": $rc, \"clauses\": \"$(grep -o 'violated clause [A-Za-z_]*' /tmp/seed_check_$c.txt | sort | uniq -c | tr '\n' ';' | tr -s ' ')\"}," >> seeded/$NAME/verif_result.json; echo "$NAME $c rc=$rc $(grep -o 'violated clause [A-Za-z_]*' /tmp/seed_check_$c.txt | sort | uniq -c | head -3 | tr '\n' ';')"; done
echo "\"_\": {}}}" >> seeded/$NAME/verif_result.json
git -C /repo checkout -- .
