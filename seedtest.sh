#!/bin/bash
# seedtest.sh <seed-dir (worktree with out/)> <name> <check-id> [more check ids] : confirm the seeded change's demo
# in the scratch worktree, then apply it to /repo, run the checks (quick tier), undo, and store it in $V/seeded/<name>/
export GOFLAGS=-mod=mod GOPROXY=off GOSUMDB=off GOTOOLCHAIN=local
V=$(cd $(dirname $0); pwd)
W=$1; NAME=$2; shift 2
cd $W || exit 2
DEMO=$(python3 -c "import json;print(json.load(open('out/meta.json'))['demo_cmd'])")
git checkout -q -- . 2>/dev/null
echo "== demo without change:"; (eval "$DEMO") >/tmp/seed_demo_clean.txt 2>&1; echo "rc=$?"
git apply out/patch.diff || { echo "patch does not apply in worktree"; exit 2; }
echo "== build with change:"; go build ./... && echo ok
echo "== demo with change:"; (eval "$DEMO") >/tmp/seed_demo_mut.txt 2>&1; echo "rc=$?"
git checkout -q -- .
mkdir -p $V/seeded/$NAME && cp out/* $V/seeded/$NAME/
cd $V
if ! git -C /repo apply --check $W/out/patch.diff; then echo "patch does not apply to /repo HEAD"; exit 2; fi
git -C /repo apply $W/out/patch.diff
echo "{\"confirmed\": \"demo passes on clean tree, fails with patch (run in scratch worktree $W)\", \"checks\": {" > $V/seeded/$NAME/verif_result.json
for c in "$@"; do ./check $c > /tmp/seed_check_$c.txt 2>&1; rc=$?; echo "\"$c\": {\"quick_rc\": $rc, \"clauses\": \"$(grep -o 'violated clause [A-Za-z_]*' /tmp/seed_check_$c.txt | sort | uniq -c | tr '\n' ';' | tr -s ' ')\"}," >> $V/seeded/$NAME/verif_result.json; grep -E "VIOLATION|violated clause|INCONCLUSIVE|validated" /tmp/seed_check_$c.txt | cut -c1-400 | head -5; echo "$c rc=$rc"; done
echo "\"_\": {}}}" >> $V/seeded/$NAME/verif_result.json
git -C /repo checkout -- .
git -C /repo status --short | head -3
