#!/bin/bash
# mut.sh <file-in-repo> <sed-expr> <check-id>... : apply a one-line mutation to /repo, run checks, revert
f=$1; e=$2; shift 2
cd /repo && sed -i "$e" "$f" && git diff --stat | tail -1
if git diff --quiet; then echo "MUTATION DID NOT APPLY"; exit 3; fi
cd /verif
for c in "$@"; do ./check $c 2>&1 | grep -E "VIOLATION|violated clause|rc=|INCONCLUSIVE|validated" | head -4; echo "$c rc=${PIPESTATUS[0]}"; done
git -C /repo checkout -- .
