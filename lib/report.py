"""Turning TLC's list of violated clauses into VIOLATION / KNOWN-FINDING lines."""
import json, os
import vf

last_drift = {}
_printed = set()


def list_unreached(pid):
    """at the end of a check: the open findings listed for this property that this run did not reach are printed too (the
    file lists them; the run neither confirms nor refutes them)"""
    for k in vf.load_known():
        if k.get("status") == "open" and k.get("property") == pid and k["id"] not in _printed:
            _printed.add(k["id"])
            print("KNOWN-FINDING: property=%s %s: %s [listed; not reached by this run]" % (pid, k["id"], k["what"]), flush=True)


def classify(pid, viols, trace_path, describe):
    """viols: [(line, clause)].  Clauses named 'KNOWN:<finding-id>' come from Dev_* actions of the
    spec, which are enabled only for findings listed in known_findings.jsonl.  Returns
    (n_new, known_ids, replay_path)."""
    known = {k["id"]: k for k in vf.load_known() if k.get("status") == "open" and k.get("property") == pid}
    new, seen_known, drift = [], {}, {}
    for ln, clause in viols:
        if clause.startswith("KNOWN:") and clause[6:] in known:
            seen_known.setdefault(clause[6:], ln)
        elif clause.startswith("MODEL:"):
            # conformance with a constructive model: the code does something the model does not compute, but no
            # clause of the property is violated by it.  Reported, recorded in the evidence, never a verdict.
            drift.setdefault(clause, []).append(ln)
        else:
            new.append((ln, clause))
    for fid, ln in sorted(seen_known.items()):
        if fid not in _printed:
            _printed.add(fid)
            print("KNOWN-FINDING: property=%s %s: %s" % (pid, fid, known[fid]["what"]), flush=True)
    for c, lns in sorted(drift.items()):
        print("MODEL-DRIFT: property=%s %s at %d trace line(s), first %d (no property clause violated by these steps)" % (pid, c, len(lns), lns[0]), flush=True)
    global last_drift
    last_drift = {c: len(l) for c, l in drift.items()}
    replay = None
    if new:
        d = vf.rundir(pid, "violations")
        replay = os.path.join(d, "violation.json")
        items = []
        for ln, clause in new[:10]:
            rec = vf.trace_line(trace_path, ln)
            items.append({"trace_line": ln, "clause": clause, "event": rec, "what": describe(clause, rec) if describe else clause})
        with open(replay, "w") as f:
            json.dump({"property": pid, "trace": trace_path, "violations": items}, f, indent=1)
        for it in items[:5]:
            vf.log("violated clause %s at trace line %d: %s" % (it["clause"], it["trace_line"], it["what"]))
        print("VIOLATION property=%s replay=%s" % (pid, replay), flush=True)
    return len(new), sorted(seen_known), replay
