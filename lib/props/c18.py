"""C18 — staking transactions cannot move bonded stake more than 5% per 12-hour period."""
import json, os, time
import vf, report

PID = "C18"

def run(tier, seed, replay):
    t0 = time.time()
    thorough = tier == "thorough"
    wd = vf.fresh(vf.rundir(PID, "work"))
    vh = vf.build_harness(PID)
    if replay:
        cases = [json.dumps(c) for c in json.load(open(replay))["cases"]]
        mcs = mct = 0
    else:
        mc = vf.tlc_mc(PID, "StakeGuard_MC", workers=1, cfg="StakeGuard_MC_%s.cfg" % ("thorough" if thorough else "quick"), timeout=1200)
        cases = [json.dumps(c) for c in mc.prints("CASE")]
        mcs, mct = mc.distinct, mc.generated
    if not cases:
        raise vf.Inconclusive("TLC produced no cases")
    cpath = os.path.join(wd, "cases.ndjson")
    open(cpath, "w").write("\n".join(cases) + "\n")
    t1 = os.path.join(wd, "ante.ndjson"); s1 = os.path.join(wd, "ante.stats.json")
    vf.run_driver(vh, ["c18", "-cases", cpath, "-trace", t1, "-stats", s1, "-seed", str(seed)], wd)
    t2 = os.path.join(wd, "hist.ndjson"); s2 = os.path.join(wd, "hist.stats.json")
    n, blocks = (150, 60) if thorough else (25, 40)
    vf.run_driver(vh, ["hist", "-proj", "reporter", "-n", str(n), "-blocks", str(blocks), "-maxops", "5", "-jumps", "-sbias", "4", "-valstatus", "-stories", "20",
                       "-trace", t2, "-stats", s2, "-seed", str(seed)], wd)
    tpath = os.path.join(wd, "trace.ndjson")
    with open(tpath, "w") as out:
        out.write(open(t1).read()); out.write(open(t2).read())
    a = json.load(open(s1)); h = json.load(open(s2))
    viols, st, tr, wall = vf.validate_trace(PID, "StakeGuard_Trace", tpath, group_key="hist", nshards=8)
    def describe(clause, rec):
        r = {k: v for k, v in rec.items() if k != "post"}
        return "%s violated by %s" % (clause, json.dumps(r)[:400])
    nnew, known, rp = report.classify(PID, viols, tpath, describe)
    if rp:
        j = json.load(open(rp))
        cs = []
        for it in j["violations"]:
            e = it["event"]
            if e["ev"] == "AnteCase":
                val = lambda n: sum(x * 10000 ** i for i, x in enumerate(n))
                cs.append({"base": val(e["base"]), "bonded": val(e["bonded"]), "tx": [{"kind": m["kind"], "amt": val(m["amt"])} for m in e["tx"]]})
        j["cases"] = cs
        json.dump(j, open(rp, "w"), indent=1)
    cov = {"states": mcs + st, "transitions": mct + tr, "traces_validated_against_impl": a["cases"] + h["histories"],
           "samples": a["samples"][:3] or [{"note": "none"}],
           "ante_cases": a["cases"], "ante_admitted": a["admitted"], "ante_rejected": a["rejected"],
           "histories": h["histories"], "history_lines": h["lines"], "exhaustive": True,
           "explanation": "StakeGuard_MC enumerates baselines x current bonded totals at the +-5% boundaries x transactions of 1..2 (quick) / 1..3 (thorough) messages over all staking message kinds and amounts {1, 5%, 5%+1}; each case runs through the real TrackStakeChangesDecorator on the production app (bonded total reached by real delegations, tracker item set), TLC checks accepted <=> Admit (all staking messages of the tx together). Recorded histories check the refresh rule: the tracker changes only in an end-block at/after expiry, to the bonded total of that moment."}
    vf.write_evidence(PID, tier, seed, "model_checking", cov, time.time() - t0, nnew,
                      ["the decorator is invoked directly with the production keepers; its position in the ante chain is exercised by the ABCI-mode driver of C17/C19 (signed transactions through CheckTx)",
                       "redelegation counts as stake-adding, as the property states"])
    return 1 if nnew else 0
