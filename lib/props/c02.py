"""C02 — no accepted transaction sequence can make block processing fail."""
import json, os, time
import vf, report

PID = "C02"

def run(tier, seed, replay):
    t0 = time.time()
    thorough = tier == "thorough"
    wd = vf.fresh(vf.rundir(PID, "work"))
    vh = vf.build_harness(PID)
    tpath = os.path.join(wd, "trace.ndjson")
    spath = os.path.join(wd, "stats.json")
    n, blocks = (400, 60) if thorough else (60, 40)
    args = ["hist", "-n", str(n), "-blocks", str(blocks), "-maxops", "6", "-boundary", "-gov", "-jumps", "-valstatus", "-bbias", "1", "-mintinit", "-stories", "70",
            "-trace", tpath, "-stats", spath, "-seed", str(seed)]
    if replay:
        j = json.load(open(replay))
        args = j["driver_args"] + ["-trace", tpath, "-stats", spath]
    vf.run_driver(vh, args, wd)
    stats = json.load(open(spath))
    viols, st, tr, wall = vf.validate_trace(PID, "Chain_Trace", tpath, group_key="hist", nshards=8)
    def describe(clause, rec):
        return "%s: %s at height %s of history %s failed: %s" % (clause, rec["ev"], rec["h"], rec["hist"], rec.get("err"))
    nnew, known, rp = report.classify(PID, viols, tpath, describe)
    if rp:
        j = json.load(open(rp))
        h = j["violations"][0]["event"]["hist"]
        j["driver_args"] = [a for a in args if a not in (tpath, spath, "-trace", "-stats")] + ["-only", str(h)]
        json.dump(j, open(rp, "w"), indent=1)
    blocks_run = stats["events"].get("EndBlock", 0)
    msgs = {k: v for k, v in stats["events"].items() if k not in ("BeginBlock", "EndBlock")}
    okmsgs = {k: v for k, v in stats["ok_events"].items() if k not in ("BeginBlock", "EndBlock")}
    cov = {
        "states": st, "transitions": tr, "traces_validated_against_impl": stats["histories"],
        "samples": stats["samples"][:3],
        "blocks": blocks_run, "messages": sum(msgs.values()), "messages_accepted": sum(okmsgs.values()),
        "message_types_executed": len(msgs), "message_types_accepted": len(okmsgs),
        "events": stats["events"], "accepted_events": stats["ok_events"],
        "explanation": "random histories (seeded) over all 25 layer message types + staking delegate/undelegate/redelegate on the production app (app.New), with boundary/malformed inputs and block gaps 1ms..22d; every App.BeginBlocker/EndBlocker result recorded; TLC (Chain_Trace) accepts a history only if no automatic phase fails.",
    }
    vf.write_evidence(PID, tier, seed, "model_checking", cov, time.time() - t0, nnew,
                      ["A-1: every genesis validator has a registered EVM address and >= 1 TRB (bridge EndBlock otherwise returns 'no validators found')",
                       "keeper mode: BeginBlocker/EndBlocker/message router of the production app are called directly; proposal handlers are covered by C17",
                       "SDK slashing/evidence are not generated"])
    return 1 if nnew else 0
