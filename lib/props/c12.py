"""C12 — dispute lifecycle, voting power and tally follow the specified rules."""
import json, os, random, time
import vf, report

PID = "C12"

def run(tier, seed, replay):
    t0 = time.time()
    thorough = tier == "thorough"
    wd = vf.fresh(vf.rundir(PID, "work"))
    vh = vf.build_harness(PID)
    # ---- tally: TLC-enumerated distributions installed in the real keeper ----
    mc = vf.tlc_mc(PID, "Tally_MC", workers=1, cfg="Tally_MC_quick.cfg", timeout=1200, heap="6g")
    allcases = mc.prints("CASE")
    rng = random.Random(seed)
    def interesting(c):   # ties and zero totals are always kept
        cn = c["cn"]
        def tie(g): return sum(g) > 0 and sorted(g)[-1] == sorted(g)[-2]
        return tie(cn["users"]) or tie(cn["reporters"]) or c["tot"]["users"] == 0 or c["tot"]["reporters"] == 0
    n_keep = 9000 if thorough else 1600
    inter = [c for c in allcases if interesting(c)]
    rng.shuffle(inter); rng.shuffle(allcases)
    cases = inter[: n_keep // 2] + allcases[: n_keep // 2]
    td = vf.fresh(os.path.join(wd, "tally"))
    cpath = os.path.join(td, "cases.ndjson")
    open(cpath, "w").write("\n".join(json.dumps(c) for c in cases) + "\n")
    t1 = os.path.join(td, "trace.ndjson"); s1 = os.path.join(td, "stats.json")
    vf.run_driver(vh, ["c12tally", "-cases", cpath, "-trace", t1, "-stats", s1], wd)
    # shard by line blocks: add a pseudo group key
    lines = open(t1).read().splitlines()
    with open(t1, "w") as f:
        for i, ln in enumerate(lines):
            f.write(ln[:-1] + ',"grp":%d}\n' % (i // 100))
    v1, st1, tr1, _ = vf.validate_trace(PID, "Tally_Trace", t1, group_key="grp", nshards=12)
    a = json.load(open(s1))
    n1, _, rp1 = report.classify(PID, v1, t1, lambda c, r: "%s: counts %s totals %s ended %s -> ok=%s result=%s" % (c, r["cn"], r["tot"], r["ended"], r["ok"], r.get("result")))
    # ---- lifecycle and vote weights: recorded histories ----
    hd = vf.fresh(os.path.join(wd, "hist"))
    t2 = os.path.join(hd, "trace.ndjson"); s2 = os.path.join(hd, "stats.json")
    n, blocks = (300, 60) if thorough else (40, 40)
    args = ["hist", "-proj", "dispute,bank", "-boundary", "-gov", "-jumps", "-valstatus", "-dbias", "3", "-stories", "100", "-maxops", "6",
            "-n", str(n), "-blocks", str(blocks), "-seed", str(seed)]
    if replay:
        args = json.load(open(replay)).get("driver_args", args)
    vf.run_driver(vh, args + ["-trace", t2, "-stats", s2], wd)
    v2, st2, tr2, _ = vf.validate_trace(PID, "Dispute_Life_Trace", t2, group_key="hist", nshards=8)
    b = json.load(open(s2))
    n2, known, rp2 = report.classify(PID, v2, t2, lambda c, r: "%s violated by %s" % (c, json.dumps({k: v for k, v in r.items() if k != "post"})[:400]))
    if rp2:
        j = json.load(open(rp2)); h = j["violations"][0]["event"]["hist"]; j["driver_args"] = args + ["-only", str(h)]; json.dump(j, open(rp2, "w"), indent=1)
    # ---- direction spec -> code: behaviours of the constructive life-cycle model replayed on the real chain ----
    dm = vf.tlc_mc(PID, "DisputeSM_MC", workers=8, cfg="DisputeSM_MC_thorough.cfg" if thorough else "DisputeSM_MC.cfg", timeout=2400, heap="8g")
    if dm.inv_violated or dm.prop_violated:
        raise vf.Inconclusive("design-level model DisputeSM_MC violates %s (model error or unreproduced candidate)" % (dm.inv_violated + dm.prop_violated))
    ind_wall = vf.apalache_inductive(PID, "DisputeInd")
    n3 = 0; sm_cov = {}
    if not replay:
        sd = vf.fresh(os.path.join(wd, "sm")); vf.stage_specs(sd)
        r = vf.tlc(sd, "DisputeSM_Sim", "num_native", workers=1, cfg="DisputeSM_Sim.cfg", simulate=(400 if thorough else 60), depth=31, seed=seed, timeout=900)
        if r.error or r.inv_violated:
            raise vf.Inconclusive("DisputeSM_Sim: %s" % (r.error or r.inv_violated))
        cs = r.prints("CASE")
        keys = sorted({json.dumps(c)[:-1] for c in cs})
        maximal = [k for i, k in enumerate(keys) if not (i + 1 < len(keys) and keys[i + 1].startswith(k))]
        behaviours = [json.loads(k + "]") for k in maximal][: (3000 if thorough else 400)]
        if not behaviours:
            raise vf.Inconclusive("DisputeSM_Sim produced no behaviours")
        cp3 = os.path.join(sd, "cases.ndjson"); t3 = os.path.join(sd, "trace.ndjson"); s3 = os.path.join(sd, "stats.json")
        open(cp3, "w").write("\n".join(json.dumps(c) for c in behaviours) + "\n")
        vf.run_driver(vh, ["c12sm", "-cases", cp3, "-trace", t3, "-stats", s3, "-seed", str(seed), "-proj", "dispute,bank"], wd)
        v3, st3, tr3, _ = vf.validate_trace(PID, "Dispute_Life_Trace", t3, group_key="hist", nshards=8)
        n3, _, rp3 = report.classify(PID, v3, t3, lambda c, r: "%s violated by %s" % (c, json.dumps({k: v for k, v in r.items() if k != "post"})[:400]))
        if rp3:
            j = json.load(open(rp3)); j["model_behaviour"] = behaviours[j["violations"][0]["event"]["hist"] - 1]; json.dump(j, open(rp3, "w"), indent=1)
        c3 = json.load(open(s3))
        sm_cov = {"model_behaviours_replayed": len(behaviours), "model_replay_trace_lines": c3["lines"], "model_replay_events": c3["events"],
                  "model_replay_accepted_events": c3["ok_events"], "model_replay_drift": dict(report.last_drift), "model_replay_states": st3}
    # ---- the enumerated dispute scenarios (votes by the disputed reporter before / after its selectors, nobody voting, ...) ----
    n4 = 0; sc_cov = {}
    if not replay:
        import scen
        n4, sc_cov = scen.run(PID, "Dispute_Life_Trace", "dispute,bank", tier, seed)
    cov = {"states": mc.distinct + st1 + st2, "transitions": mc.generated + tr1 + tr2,
           "traces_validated_against_impl": a["cases"] + b["histories"], "samples": (a["samples"][:2] + [{k: v for k, v in s.items() if k != "post"} for s in b["samples"][:1]]) or [{"note": "none"}],
           "tally_cases_enumerated": len(allcases), "tally_cases_replayed": a["cases"], "tally_results": a["results"],
           "inductive_invariant": {"tool": "apalache-mc 0.58", "module": "DisputeInd", "established": "Init => IndInv, IndInv /\\ Next => IndInv': the begin-blocker never meets a dispute it cannot execute, only the last round of a family is executed, status/flag/result consistency - for any number of steps, any block times, any tally outcomes", "wall_s": round(ind_wall, 1)},
           "design_level": [{"module": "DisputeSM_MC", "distinct_states": dm.distinct, "generated": dm.generated, "depth": dm.depth, "wall_s": round(dm.wall, 1)}], **sm_cov, **sc_cov,
           "histories": b["histories"], "history_lines": b["lines"], "events": b["events"], "accepted_events": b["ok_events"], "known_findings_seen": known,
           "explanation": "DisputeInd.tla: the life cycle typed for Apalache with an inductive invariant (established by apalache-mc for unbounded steps, times and tally outcomes). DisputeSM.tla: the dispute life cycle as a constructive state machine (new dispute / further round / added fee / vote with immediate tally / begin-block expiry, tally and execution), one operator per critical section of x/dispute; DisputeSM_MC checks the design exhaustively over all interleavings of proposals, fees, votes and block gaps of 1..7 half-days (begin-block can never fail, nothing overdue after a begin-block, one open round per report, executed once and final, status graph, rounds chain); the model's behaviours (TLC -simulate) are replayed on real chains and every recorded step - of replays and of random histories - must match the model (MODEL clauses, reported as drift). Dispute.tla: status graph, round fee doubling, vote guards, vote weights (team fixed, tips and stake as of the dispute block, selector vote removed from its reporter), TallyResult (two-stage quorum, strict maximum, invalid on ties). Tally_MC enumerates distributions (weights 0..2 per group and choice, group totals incl. zero, team absent/S/A/I, period over or not); a seeded sample (all ties and zero totals first) is installed in the real keeper by state injection and the real TallyVote is run; TLC compares result and totality. Recorded histories with scripted dispute stories (multi-round, votes by team/tippers/reporters/selectors/holders, deadlines at 1/2/3 days) are validated against Dispute_Life_Trace: status steps, no transition twice, vote guards, voter record weights from observed inputs, counts = sum of voter records, recorded result = formula."}
    vf.write_evidence(PID, tier, seed, "model_checking", cov, time.time() - t0, n1 + n2 + n3 + n4,
                      ["tally cases are installed by writing VoteCountsByGroup / BlockInfo / Votes / Voter directly (state injection), weights scaled to the chain's real supply",
                       "vote-weight inputs (tips at the dispute block, stake snapshots, liquid balance) are read from the keepers before each vote"])
    return 1 if (n1 + n2 + n3 + n4) else 0
