"""C10 — reporting power equals the bonded stake of active selectors, counted once."""
import histcheck

PID = "C10"
COMMON = ["hist", "-proj", "reporter", "-boundary", "-gov", "-jumps", "-valstatus", "-maxops", "6", "-sbias", "2", "-stories", "90"]

def run(tier, seed, replay):
    return histcheck.run(
        PID, tier, seed, replay, "Reporter_Trace",
        COMMON + ["-n", "50", "-blocks", "40"],
        COMMON + ["-n", "400", "-blocks", "60"],
        "ReporterSM.tla: the selection table as a constructive state machine (create / select / switch with lock rule / remove); ReporterSM_MC explores every interleaving of these with reports and time over three accounts (317 k / 14 M states) and checks the consequence C10 states - the same stake never serves two reporters within an unbonding period - plus one reporter per selector, cap, locks never shorten; with removals enabled (ReporterSM_MC_removal.cfg) TLC produces the counterexample that became finding F-25, replayed on the chain by RemovalStory. Reporter.tla: stake of a report = sum over the reporter's unlocked selectors of their delegations to bonded validators (observed from the staking module independently of ReporterStake), power = stake div 10^6, stored token origins = exactly those summands; guards of select/switch (room below the cap, reporter's minimum), unjail only after jail time, switch after the previous reporter reported locks for the unbonding period; inferred history: the same selector's stake never serves two reporters' accepted reports within the unbonding period. Recorded histories (delegate/undelegate/redelegate, 100% slashes unbonding validators, create/select/switch/remove, jail/unjail) validated by TLC.",
        ["observed per-delegation tokens come from the staking keeper (TokensFromShares truncated), logged before each message", "MaxValidators is the SDK default (100), so the 'more delegations than the validator cap' branch is not reached by these histories"],
        mc=[("ReporterSM_MC", "ReporterSM_MC.cfg", "ReporterSM_MC_thorough.cfg", 8)])
