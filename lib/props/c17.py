"""C17 — vote-extension data reaches state only as signed; proposals stay coherent."""
import json, os, random, time
import vf, report

PID = "C17"

def run(tier, seed, replay):
    t0 = time.time()
    thorough = tier == "thorough"
    wd = vf.fresh(vf.rundir(PID, "work"))
    vh = vf.build_harness(PID)
    if replay:
        cases = json.load(open(replay))["cases"]
        mc_s = mc_t = 0; total = len(cases)
    else:
        mc = vf.tlc_mc(PID, "VoteExt_MC", workers=1, cfg="VoteExt_MC.cfg", timeout=1200, heap="6g")
        allc = mc.prints("CASE"); total = len(allc)
        rng = random.Random(seed)
        full = [c for c in allc if all(v["flag"] == "commit" for v in c)]
        rng.shuffle(full); rng.shuffle(allc)
        nfull, nrest = (2500, 2500) if thorough else (350, 350)
        cases = full[:nfull] + allc[:nrest]
        rng.shuffle(cases)   # both halves (see below) get fully committed and mixed-flag commits alike
        mc_s, mc_t = mc.distinct, mc.generated
    cpath = os.path.join(wd, "cases.ndjson")
    open(cpath, "w").write("\n".join(json.dumps(c) for c in cases) + "\n")
    tpath = os.path.join(wd, "trace.ndjson"); spath = os.path.join(wd, "stats.json")
    # first half of the cases on a chain where only v0 has an EVM address (registrations happen through the commits), second
    # half on a chain where all three are registered and the two checkpoints order them differently (slots follow the
    # previous set)
    half = len(cases) // 2
    cp1, cp2 = cpath + ".1", cpath + ".2"
    open(cp1, "w").write("\n".join(json.dumps(c) for c in cases[:half]) + "\n")
    open(cp2, "w").write("\n".join(json.dumps(c) for c in cases[half:]) + "\n")
    vf.run_driver(vh, ["c17", "-cases", cp1, "-trace", tpath + ".1", "-stats", spath + ".1", "-seed", str(seed)], wd)
    vf.run_driver(vh, ["c17", "-cases", cp2, "-trace", tpath + ".2", "-stats", spath + ".2", "-seed", str(seed), "-allreg"], wd)
    s1, s2j = json.load(open(spath + ".1")), json.load(open(spath + ".2"))
    st = {"cases": s1["cases"] + s2j["cases"], "mutations": s1["mutations"] + s2j["mutations"], "panics": s1["panics"] + s2j["panics"], "samples": s1["samples"] + s2j["samples"]}
    open(tpath, "w").write(open(tpath + ".1").read() + open(tpath + ".2").read())
    lines = open(tpath).read().splitlines()
    with open(tpath, "w") as f:
        for i, ln in enumerate(lines):
            f.write(ln[:-1] + ',"grp":%d}\n' % (i // 60))
    viols, s2, t2, _ = vf.validate_trace(PID, "VoteExt_Trace", tpath, group_key="grp", nshards=8, lib="num_native")
    def describe(c, r):
        return "%s: commit %s -> prepared=%s process=%s panics=%s" % (c, [(v["val"], v["flag"], v["shape"]) for v in r["votes"]], r.get("prepared"), r.get("process"), [p[:100] for p in r.get("panics", [])])
    nnew, known, rp = report.classify(PID, viols, tpath, describe)
    if rp:
        j = json.load(open(rp)); j["cases"] = [[{"val": v["val"], "flag": v["flag"], "shape": v["shape"]} for v in it["event"]["votes"]] for it in j["violations"]]; json.dump(j, open(rp, "w"), indent=1)
    cov = {"states": mc_s + s2, "transitions": mc_t + t2, "traces_validated_against_impl": st["cases"], "samples": st["samples"][:2] or [{"note": "none"}],
           "commits_enumerated": total, "commits_materialised": st["cases"], "injected_tx_mutations_checked": st["mutations"], "handler_panics": st["panics"],
           "explanation": "VoteExt.tla: what an extended commit's vote extensions contain (registrations only from both initial signatures by the validator's own key for validators without an address, valset signatures, attestations; commit votes only, in commit order) and when a commit is valid. VoteExt_MC enumerates all flag x shape combinations for three validators (18 shapes incl. non-JSON, truncated, JSON objects with omitted keys, short / mismatching / 65-byte signatures, duplicated and foreign snapshots); a seeded sample (half all-commit) is materialised as real ExtendedCommitInfo signed with the validators' ed25519 keys and run through the real VerifyVoteExtension, PrepareProposal, ProcessProposal (same state) and PreBlocker under recover; every injected list is mutated (add / drop / change / swap) and re-processed; arbitrary bytes as injected tx. TLC decides: no panics, injected lists = spec, Process(Prepare(valid commit)) = ACCEPT, every mutation rejected, state written = accepted data with signatures/attestations only in the sender's slot."}
    vf.write_evidence(PID, tier, seed, "model_checking", cov, time.time() - t0, nnew,
                      ["handlers are called directly on the production keepers with a context carrying consensus params (VoteExtensionsEnableHeight 1) and the matching CometInfo last commit",
                       "attestation requests and snapshot slots for the previous height are installed directly in the bridge collections"])
    return 1 if nnew else 0
