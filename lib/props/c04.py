"""C04 — escrow accounts always cover what the chain says it owes."""
import histcheck

PID = "C04"
COMMON = ["hist", "-proj", "bank,oracle,reporter", "-boundary", "-gov", "-jumps", "-valstatus", "-maxops", "6", "-mintinit", "-bbias", "2", "-dbias", "1", "-stories", "70"]

def run(tier, seed, replay):
    return histcheck.run(
        PID, tier, seed, replay, "Escrow_Trace",
        COMMON + ["-n", "50", "-blocks", "40"],
        COMMON + ["-n", "400", "-blocks", "60"],
        "RewardSM_MC (design level, shared with C09): tip -> oracle account -> tips escrow pool -> selector credits -> whole-coin withdrawals, exhaustively within small bounds: oracle account = open tips, pool covers credits, every coin tipped is burned, waiting, in the pool or withdrawn. Escrow.tla: oracle account = sum of open-query tips (exact), tips escrow pool >= sum of 18-decimal credits (tolerance 10^-18 per credit, the one C09 states), bridge account = 0, credits ever given <= coins ever paid into the pool, tips land with their query, withdrawals take exactly the whole-coin credit, no entitled claim fails for lack of funds. Recorded production-app histories (reporter/selector topologies with several validators per selector, commissions 0..1 and the out-of-range ones of finding F-12, selectors joining/leaving) validated by TLC after every operation.",
        ["the dispute-account clause (escrowed stake + fees + voter pots) is decided by the C13 conservation spec", "credits compared scaled by 10^18 with one 10^-18 unit of tolerance per credit given"],
        mc=[("RewardSM_MC", "RewardSM_MC.cfg", "RewardSM_MC_thorough.cfg", 8)])
