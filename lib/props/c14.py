"""C14 — bridge deposits mint once, conditionally; withdrawals burn what they attest."""
import histcheck, vf

PID = "C14"
COMMON = ["hist", "-proj", "bank,bridge,aggs", "-boundary", "-gov", "-jumps", "-valstatus", "-bbias", "3", "-stories", "100", "-maxops", "5"]

def inductive(stats):
    """unbounded steps / aggregates / checkpoints / time: Apalache establishes the inductive invariant of BridgeInd"""
    wall = vf.apalache_inductive(PID, "BridgeInd")
    return {"inductive_invariant": {"tool": "apalache-mc 0.58", "module": "BridgeInd", "wall_s": round(wall, 1),
                                    "established": "Init => IndInv, IndInv /\\ Next => IndInv': a deposit id is minted at most once and only from an aggregate >= 12 h old that met the threshold in force when reported, for any number of steps, aggregates, checkpoints and any passage of time"}}


def run(tier, seed, replay):
    return histcheck.run(
        PID, tier, seed, replay, "Bridge_Trace",
        COMMON + ["-n", "40", "-blocks", "30"],
        COMMON + ["-n", "300", "-blocks", "45"],
        "BridgeSM.tla / BridgeSM_MC: the bridge as a constructive state machine (ClaimNext over a batch, WithdrawNext; aggregates appearing, flags, checkpoints, time), checked exhaustively within small bounds: a deposit id is minted at most once over all its aggregates, batches and batch positions, only from an unflagged aggregate >= 12 h old that met the threshold in force when it was reported (which later checkpoints never change), supply and balances = mints - burns, withdrawal ids 1..n published once each. Bridge.tla: Claimable (aggregate exists at the index, unflagged, id unclaimed, power >= threshold of the latest checkpoint strictly before the report, age >= 12 h, value decodes, valid recipient, tip <= amount), sequential batch semantics, minted = amount div 10^12, tip part to the claimer, rest to the recipient; withdrawals burn exactly the amount from the sender, ids increase by one, the published aggregate (no reporters) decodes to (recipient, sender, amount, 0); aggregates under withdrawal queries appear only through withdrawals; reports for withdrawal queries are rejected. Histories contain scripted bridge stories: operators with power 4000/2000/1000 around the 2/3 threshold reporting deposits (incl. malformed values, tip > amount, amounts < 10^12 and >= 2^62*10^12, bad recipients), claims at 12h-1ms / 12h / 13h, repeated and batched claims, disputes flagging the aggregate before the claim, withdrawals with recipients of any length.",
        ["deposit and withdrawal values are decoded by the harness with the Go ABI library (projection); byte-exact layouts are decided in C15",
         "bridge deposit rounds are made short by a governance update of the trbbridge spec window, otherwise no deposit aggregates within a history",
         "design level (BridgeSM_MC): 10^12 is represented by 10, two deposit ids with up to two aggregates each, two checkpoints, times around the 12-hour boundary"],
        mc=[("BridgeSM_MC", "BridgeSM_MC.cfg", "BridgeSM_MC_thorough.cfg", 8)], extra_cov=None if replay else inductive)
