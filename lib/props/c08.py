"""C08 — aggregate history is append-only, time-ordered and correctly retrievable."""
import histcheck

PID = "C08"
COMMON = ["hist", "-proj", "aggs,dispute", "-boundary", "-gov", "-jumps", "-valstatus", "-probe", "-bbias", "2", "-dbias", "1", "-maxops", "6", "-stories", "50"]

def run(tier, seed, replay):
    return histcheck.run(
        PID, tier, seed, replay, "AggHist_Trace",
        COMMON + ["-n", "30", "-blocks", "40"],
        COMMON + ["-n", "250", "-blocks", "60"],
        "AggHist.tla: the history of a query as a chronological sequence; Extends (entries never altered or removed, flag only FALSE->TRUE), strictly increasing timestamps, sequence numbers increasing by one, flag only through a dispute/evidence naming the report that determined the aggregate, and a funded dispute or accepted evidence about a determining report leaves its aggregate flagged; lookups Current / Before (strict, skipping flagged) / ByIndex (0-based) / TsBefore / TsAfter and snapshot neighbours as operators on the list. AggHist_MC checks their mutual consistency exhaustively on all histories of <= 4 entries over a 6-point time domain with any flags. After every block of the recorded histories the real getters are probed (timestamps before the first, between, equal to, after stored ones; indexes in/out of range) and the attestation snapshots created in that block are read; TLC compares every answer with the operator applied to the projected history.",
        ["withdrawal aggregates appear under their own query ids and are part of the projected history", "the gRPC GetDataBefore endpoint is a thin wrapper over GetAggregateBefore and is not called separately"],
        mc=[("AggHist_MC", "AggHist_MC.cfg", "AggHist_MC.cfg", 4)], nshards=12)
