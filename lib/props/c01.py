"""C01 — block execution is deterministic across runs and nodes."""
import json, os, time
import vf, report

PID = "C01"

def run(tier, seed, replay):
    t0 = time.time()
    thorough = tier == "thorough"
    wd = vf.fresh(vf.rundir(PID, "work"))
    vh = vf.build_harness(PID)
    tpath = os.path.join(wd, "trace.ndjson"); spath = os.path.join(wd, "stats.json")
    n, K, blocks = (60, 32, 50) if thorough else (16, 8, 35)
    args = ["c01", "-n", str(n), "-replicas", str(K), "-blocks", str(blocks), "-maxops", "6", "-boundary", "-gov", "-jumps", "-valstatus", "-mintinit", "-seed", str(seed)]
    if replay:
        args = json.load(open(replay))["driver_args"]
    vf.run_driver(vh, args + ["-trace", tpath, "-stats", spath], wd)
    stats = json.load(open(spath))
    viols, st, tr, wall = vf.validate_trace(PID, "Determinism_Trace", tpath, group_key="hist", nshards=8)
    nnew, known, rp = report.classify(PID, viols, tpath, lambda c, r: "%s: replica %s differs from replica 1 at block %s (height %s) of history %s: aggregates %s" % (c, r["k"], r["b"], r.get("h"), r["hist"], r.get("aggs")))
    if rp:
        j = json.load(open(rp)); j["driver_args"] = args; json.dump(j, open(rp, "w"), indent=1)
    cov = {"states": st, "transitions": tr, "traces_validated_against_impl": stats["histories"] * stats["replicas"],
           "samples": stats["samples"][:2] or [{"note": "none"}], "histories": stats["histories"], "replicas_per_history": stats["replicas"],
           "blocks_compared": stats["blocks"], "blocks_with_weighted_mode_aggregates": stats["blocks_with_deposit_aggregates"],
           "miss_probability_per_two_way_tie": 2.0 ** -(stats["replicas"] - 1),
           "explanation": "every generated history (half of them with equal-power reporters submitting two candidate values to weighted-mode rounds, i.e. exact ties; the rest general histories with disputes, rewards for several reporters, tallies) is executed K times on fresh production apps with different GOMAXPROCS / IAVL cache / home directory; per block the app hash after commit (digest over every store), a digest of emitted events and the created aggregates are compared by TLC (Determinism_Trace: all replicas equal the first)."}
    vf.write_evidence(PID, tier, seed, "model_checking", cov, time.time() - t0, nnew,
                      ["Go's map iteration seed cannot be controlled: an order-dependent result on a 2-way tie escapes K replicas with probability 2^-(K-1)",
                       "keeper-mode block driving; wall-clock independence is exercised only by running replicas at different times"])
    return 1 if nnew else 0
