"""C13 — dispute settlement pays out exactly what was paid in, once."""
import histcheck

PID = "C13"
COMMON = ["hist", "-fanout", "-proj", "dispute,hold", "-boundary", "-gov", "-jumps", "-valstatus", "-dbias", "3", "-stories", "100", "-maxops", "6"]

def run(tier, seed, replay):
    return histcheck.run(
        PID, tier, seed, replay, "Dispute_Settle_Trace",
        COMMON + ["-n", "50", "-blocks", "40"],
        COMMON + ["-n", "350", "-blocks", "60"],
        "Dispute_Settle_Trace keeps a shadow ledger per dispute family (coins that entered the dispute account: fees, escrowed stake; coins that left: burn, stake returned/awarded, refunds, voter rewards) and checks on every operation of recorded histories: execution only of resolved tallied disputes, exactly once, moving burn (half / all) + stake by result; refunds only to recorded payers, once, the pro-rata part floor(paid*(slash-burn)/feeTotal) liquid or into the stakes the fee came from, plus the awarded bond floor(paid*slash/feeTotal) on support; rewards only to voters after execution, once, from the pot, to the voter; no entitled claim fails for lack of funds; a recorded payer can always claim; when everything of a family is claimed at most dust (64 loya) of what entered remains. Scripted dispute stories drive all outcomes, payer sets (one, two, repeated, from bond), multi-round disputes, claim orders and repeats.",
        ["refund of failed (underfunded, expired) disputes is only bounded, not quantified (candidate F-17: 5% refunded)", "voter reward shares are checked for once-only / from-pot / residual, not re-derived per group"],
        scenarios=("Dispute_Settle_Trace", "dispute,hold"))
