"""C05 — the staked-token ledger is always backed by the staking pools."""
import histcheck

PID = "C05"
COMMON = ["hist", "-fanout", "-valslash", "-proj", "stake,dispute", "-boundary", "-gov", "-jumps", "-maxops", "6", "-dbias", "3", "-sbias", "3", "-valstatus", "-stories", "90"]

def run(tier, seed, replay):
    return histcheck.run(
        PID, tier, seed, replay, "Stake_Trace",
        COMMON + ["-n", "50", "-blocks", "40"],
        COMMON + ["-n", "400", "-blocks", "60"],
        "Stake.tla states pool-backs-ledger per pool, lock-step for SDK-native operations, Take (escrow / fee from stake: equal amounts leave ledger and pools, per-backer record sums to it) and PutBack (<= 1 smallest unit per returned entry stays in the pool). Histories on the production app with the REAL staking keeper (delegate/undelegate/redelegate, validators leaving and re-entering the bonded set through 100% slashes, disputes with all outcomes, fee from bond, refunds, tip withdrawals) are projected after every operation (sum of validator tokens by status, unbonding entries, pool balances, delegation shares, escrow records) and validated by TLC against Stake_Trace.",
        ["the SDK staking module's own share arithmetic is observed, not re-modelled", "MaxValidators is the SDK default; validators leave the bonded set only through slashing to (near) zero or undelegation",
         "K in PutBack(K) is bounded by the number of per-backer entries recorded before the event (+1)"],
        scenarios=("Stake_Trace", "stake,dispute", ["-valslash"]))
