"""C20 — price daemon serves the true median of fresh exchange prices under concurrency."""
import json, os, time
import vf, report

PID = "C20"

def run(tier, seed, replay):
    t0 = time.time()
    thorough = tier == "thorough"
    wd = vf.fresh(vf.rundir(PID, "work"))
    vh = vf.build_harness(PID, race=True)
    # design level + median case enumeration
    mc = vf.tlc_mc(PID, "PriceCache_MC", workers=1, cfg="PriceCache_MC.cfg")
    if mc.inv_violated:
        raise vf.Inconclusive("PriceCache_MC: %s violated (spec error)" % mc.inv_violated)
    cases = [json.dumps(c) for c in mc.prints("CASE")]
    cpath = os.path.join(wd, "cases.ndjson")
    open(cpath, "w").write("\n".join(cases) + "\n")
    # (b) median cases through the real lib.Median (4 integer types)
    md = vf.fresh(os.path.join(wd, "median"))
    t1 = os.path.join(md, "trace.ndjson"); s1 = os.path.join(md, "stats.json")
    vf.run_driver(vh, ["c20median", "-cases", cpath, "-trace", t1, "-stats", s1], wd)
    v1, st1, tr1, _ = vf.validate_trace(PID, "Median_Trace", t1, group_key=None, nshards=1)
    # split the median trace for parallel validation is unnecessary: ~19k lines
    # (a) concurrent histories on the real cache (built with -race: a data race report fails the driver)
    cd = vf.fresh(os.path.join(wd, "conc"))
    t2 = os.path.join(cd, "trace.ndjson"); s2 = os.path.join(cd, "stats.json")
    segs, epochs, gor = (64, 40, 8) if thorough else (16, 25, 6)
    try:
        vf.run_driver(vh, ["c20conc", "-n", str(segs), "-blocks", str(epochs), "-maxops", str(gor), "-trace", t2, "-stats", s2, "-seed", str(seed)], wd,
                      env={"GORACE": "halt_on_error=1 exitcode=66"})
    except vf.DriverFailed as e:
        if "DATA RACE" in e.out or "concurrent map" in e.out:
            # real-code behaviour observed by the race detector riding along with the recording harness
            d = vf.rundir(PID, "violations")
            rp = os.path.join(d, "race.txt")
            open(rp, "w").write(e.out[-20000:])
            vf.log("the Go race detector reported a data race in the price cache under concurrent UpdatePrices/GetValidMedianPrices")
            print("VIOLATION property=%s replay=%s" % (PID, rp), flush=True)
            cov = {"states": mc.distinct + st1, "transitions": mc.generated + tr1, "traces_validated_against_impl": 0,
                   "samples": [{"race_report": e.out[-1500:]}], "explanation": "race detector report"}
            vf.write_evidence(PID, tier, seed, "model_checking", cov, time.time() - t0, 1, [])
            return 1
        raise
    v2, st2, tr2, _ = vf.validate_trace(PID, "PriceCache_Trace", t2, group_key="hist", nshards=8)
    a = json.load(open(s1)); b = json.load(open(s2))
    # report (two traces): classify separately, keep the first replay path
    n1, _, rp1 = report.classify(PID, v1, t1, lambda c, r: "%s: %s(%s) returned %s" % (c, r.get("typ"), r.get("in"), r.get("out")))
    n2, _, rp2 = report.classify(PID, v2, t2, lambda c, r: "%s at trace line: %s" % (c, json.dumps(r)[:300]))
    cov = {"states": mc.distinct + st1 + st2, "transitions": mc.generated + tr1 + tr2,
           "traces_validated_against_impl": a["cases"] * 4 + b["segments"],
           "samples": (a["samples"][:2] + b["samples"][:2]) or [{"note": "none"}],
           "median_cases": a["cases"], "median_calls": a["lines"], "concurrent_segments": b["segments"], "concurrent_reads": b["reads"],
           "concurrent_updates": b["updates"], "reads_returning_prices": b["reads_with_prices"], "goroutines": b["goroutines"],
           "linearizability_search_states": st2,
           "explanation": "PriceCache.tla: Median by rank over unbounded numbers (even count: mean rounded away from zero), atomic Update (replace iff strictly newer) and Read (median of prices with update time >= readT - maxAge iff >= max(minExchanges,1) fresh). PriceCache_MC enumerates all lists up to length 4 over 8 boundary positions; each is mapped order-preservingly to boundary values of uint64/uint32/int64/int32 and run through the real lib.Median; TLC checks every result. Concurrent histories (goroutines issuing random updates/reads with stale, equal, out-of-order timestamps and cut-off boundaries on one real cache, -race build) are checked for linearizability by TLC searching silent linearization steps."}
    vf.write_evidence(PID, tier, seed, "model_checking", cov, time.time() - t0, n1 + n2,
                      ["'no data race' is covered only by building the recording harness with -race (a runtime monitor; a trace spec cannot observe memory accesses)",
                       "overlap between goroutines depends on the Go scheduler; events are ordered by an atomic sequence number, never by wall clock"])
    return 1 if (n1 + n2) else 0
