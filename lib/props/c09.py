"""C09 — each reward is split exactly, non-negatively and in proportion to backing stake."""
import histcheck

PID = "C09"
COMMON = ["hist", "-proj", "reporter,rewards", "-boundary", "-gov", "-jumps", "-valstatus", "-mintinit", "-maxops", "6", "-stories", "80", "-bbias", "2"]

def run(tier, seed, replay):
    return histcheck.run(
        PID, tier, seed, replay, "Rewards_Trace",
        COMMON + ["-n", "30", "-blocks", "40"],
        COMMON + ["-n", "250", "-blocks", "60"],
        "RewardSM_MC: the life of a tip (2% burn, waiting with the query, payout split by power / commission / recorded stake with the floors of the fixed-point code, whole-coin withdrawals) as a state machine over the Rewards.tla definitions, every assignment of powers, rates and stakes within small bounds: the credits of a payout sum to the reward to within one credit unit per credit and never exceed it, the pool covers the credits, nothing is lost. Rewards.tla: Part(r) = R*contributed power/total, commission = rate*Part credited to the reporter once, the rest divided by the stake snapshot recorded with the report; everything computed as exact rationals floored at 10^-24 loya. Around every end-block of recorded histories the inputs of the split (closing rounds, reports, powers, commission rates, stake snapshots, tips, reward-pool balance) and the selectors' 18-decimal credit records before/after are logged; TLC recomputes the split: credits non-negative, sum = reward, every selector's delta = expected share (+ commission for the reporter), time-based reward empties the pool and is paid only when a cycle-list or deposit round closes.",
        ["tolerance: 10^-18 loya per credit entry plus 10^-15 of the reward (the implementation rounds power/total to 18 decimals before multiplying by the reward)",
         "commission rates outside [0,1] are open finding F-12 (Dev_F12); a reporter appearing with different powers in two aggregates of one payout (candidate F-08) has not been reached by the drivers"],
        mc=[("RewardSM_MC", "RewardSM_MC.cfg", "RewardSM_MC_thorough.cfg", 8)])
