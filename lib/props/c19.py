"""C19 — privileged changes need governance; messages touch only the signer's assets."""
import histcheck

PID = "C19"
COMMON = ["hist", "-signedhalf", "-proj", "hold,config", "-boundary", "-gov", "-jumps", "-valstatus", "-maxops", "6", "-dbias", "2", "-stories", "60"]

def run(tier, seed, replay):
    return histcheck.run(
        PID, tier, seed, replay, "Authority_Trace",
        COMMON + ["-n", "50", "-blocks", "40"],
        COMMON + ["-n", "400", "-blocks", "60"],
        "Signed mode (every second history): every message of an account whose key the harness holds travels as a transaction really signed by the account that the message's signer annotation names, through the ante handler the production app has installed (signature / sequence checks, stake-change guard), before it reaches the message router. Authority.tla: per message class the required authority (governance for the six privileged messages, current team for UpdateTeam), the frame condition on configuration (params, cycle-list digest, data specs, minter started, attestation limit, team) and, for every other message, that no account outside MayTouch (signer; disputed reporter and the backers of the report's stake snapshot when a dispute is funded; selectors of a reporter paying a fee from stake; the removed selector) has its liquid balance, delegated stake or reward credit reduced or its selection changed. Histories execute every message type signed by users, validator operators, team, the governance authority and non-authority signers for privileged messages; every account's holdings and the configuration are projected before/after each message and decided by TLC.",
        ["backers of a disputed report = delegators in the stake snapshot recorded at report time (C10 checks that snapshot against observed stake)", "production wiring (app.New): module authorities are the real governance module address"])
