"""C06 — the aggregate is the true weighted median / weighted mode of the reports."""
import json, os, time
import vf, report

PID = "C06"

def run(tier, seed, replay):
    t0 = time.time()
    thorough = tier == "thorough"
    wd = vf.fresh(vf.rundir(PID, "work"))
    vh = vf.build_harness(PID)
    # 1. design level + case generation: TLC enumerates every report sequence within the bounds,
    #    checks the definitional theorems and prints each case
    if replay:
        cases = [json.dumps(c) for c in json.load(open(replay))["cases"]]
        mc_states = mc_trans = 0
        mc = None
    else:
        cfg = "Aggregation_MC_thorough.cfg" if thorough else "Aggregation_MC_quick.cfg"
        mc = vf.tlc_mc(PID, "Aggregation_MC", workers=1, cfg=cfg)
        if mc.inv_violated:
            raise vf.Inconclusive("definitional theorem %s fails in Aggregation_MC (spec error)" % mc.inv_violated)
        cases = [json.dumps(c) for c in mc.prints("CASE")]
        mc_states, mc_trans = mc.distinct, mc.generated
    if not cases:
        raise vf.Inconclusive("TLC produced no cases")
    cpath = os.path.join(wd, "cases.ndjson")
    open(cpath, "w").write("\n".join(cases) + "\n")
    # 2. spec -> code: replay into the real WeightedMedian / WeightedMode, all arrival orders
    tpath = os.path.join(wd, "trace.ndjson")
    spath = os.path.join(wd, "stats.json")
    vf.run_driver(vh, ["c06", "-cases", cpath, "-trace", tpath, "-stats", spath, "-seed", str(seed)] + (["-thorough"] if thorough else []), wd)
    stats = json.load(open(spath))
    # 3. code -> spec: TLC decides every recorded call
    viols, st, tr, wall = vf.validate_trace(PID, "Aggregation_Trace", tpath, group_key="case", nshards=12 if thorough else 8)
    def describe(clause, rec):
        return "%s on %s: reports=%s result=%s" % (clause, rec["ev"], [(r["rep"], r["raw"], r["pow"]) for r in rec["rs"]][:8], rec.get("agg", rec.get("err")))
    nnew, known, rp = report.classify(PID, viols, tpath, describe)
    if rp:
        # make the replay file self-contained: the offending cases
        j = json.load(open(rp))
        cs = []
        for it in j["violations"]:
            idx = int(it["event"]["case"].split("-")[1])
            if idx < len(cases):
                cs.append(json.loads(cases[idx]))
        j["cases"] = cs
        json.dump(j, open(rp, "w"), indent=1)
    cov = {
        "states": mc_states + st, "transitions": mc_trans + tr,
        "traces_validated_against_impl": stats["cases"],
        "samples": stats["samples"][:4],
        "mc_states": mc_states, "trace_lines": stats["lines"], "cases_enumerated_by_tlc": len(cases),
        "cases_with_equal_weight_tie": stats["tie_cases"], "cases_with_exact_half_boundary": stats["half_boundary_cases"],
        "large_random_cases": stats["big_cases"], "events": stats["events"],
        "exhaustive": True,
        "explanation": "TLC enumerates every report sequence (bounds in the cfg), checks that a weighted median/mode exists for each; each case is executed on the real Keeper.WeightedMedian/WeightedMode in all (n<=3; 8 of 24 for n=4 in quick) arrival orders, 3 calls per order for mode; TLC (Aggregation_Trace, big-number backend) decides every recorded call against the definitions.",
    }
    vf.write_evidence(PID, tier, seed, "model_checking", cov, time.time() - t0, nnew,
                      ["values are valid base-16 strings (the submission guard's domain)", "weighted-mode inputs use powers <= 3000 for large random cases (the implementation loops `power` times)",
                       "numeric interpretation of values is big-endian base-16 (harness projection)"])
    return 1 if nnew else 0
