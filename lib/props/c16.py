"""C16 — validator-set checkpoints form a chain an EVM light client can always follow."""
import histcheck

PID = "C16"
COMMON = ["hist", "-proj", "valset", "-jumps", "-valstatus", "-vbias", "2", "-regone", "-stories", "10", "-maxops", "5"]

def run(tier, seed, replay):
    def extra(stats):
        return {"checkpoint_signatures_stored": stats["ok_events"].get("SignValset", 0), "evm_registrations": stats["ok_events"].get("RegisterEVM", 0)}
    return histcheck.run(
        PID, tier, seed, replay, "Valset_Trace",
        COMMON + ["-n", "40", "-blocks", "40"],
        COMMON + ["-n", "300", "-blocks", "60"],
        "Valset.tla: the bridge set (registered validators with non-zero power, descending power then address), NeedNew (none yet / power shifted >= 5% of the last saved set / last checkpoint older than two weeks seen one second ahead), Threshold = 2/3 total, the contract's update rule Accepts and Followable (any signer subset above two thirds of the previous set is accepted). Valset_MC explores every path from an arbitrary first checkpoint to the next (2 operators x tokens 0..3 quick, 3 operators thorough; registration at any step; steps 1/13/14/15 around the two-week boundary) and checks Followable for EVERY signer subset. Recorded histories on the real staking keeper (power shifts of 1..8%, EVM registration at any time, validators jailed/unjailed, 100% slashes, gaps 14d-2s..14d+1s, random operators signing the latest checkpoint) are projected after every operation (all bridge collections) and decided by TLC: index contiguity, increasing timestamps, stored hash/threshold/checkpoint consistent with the stored set, slot count = previous set size, signatures only in the signer's previous-set slot, new checkpoint iff NeedNew, new set = required bridge set, Followable with the recorded slots.",
        ["power = validator tokens div 10^6 as the staking module reports it (jailed / unbonding validators keep their token-derived power: note N-8)",
         "stored hash / checkpoint are compared with values recomputed from the stored set by the exported encoders, which C15 validates against the TLA+ ABI layouts",
         "EVM-side staleness (unbondingPeriod on Ethereum time) is outside the model"],
        mc=[("Valset_MC", "Valset_MC_quick.cfg", "Valset_MC_thorough.cfg", 8)], extra_cov=extra)
