"""C07 — reports enter only an open round; each round aggregates exactly once."""
import histcheck

PID = "C07"
COMMON = ["hist", "-proj", "oracle,reports,aggs", "-boundary", "-gov", "-jumps", "-valstatus", "-maxops", "6"]

def run(tier, seed, replay):
    return histcheck.run(
        PID, tier, seed, replay, "Oracle_Trace",
        COMMON + ["-n", "50", "-blocks", "40"],
        COMMON + ["-n", "400", "-blocks", "60"],
        "Oracle.tla: admission guard of a report (tip / scheduled cycle-list query / bridge deposit, window not closed, reporter exists, not jailed, observed stake >= minimum; withdrawals never), closing rounds, rotation order, tip net amount. Oracle_Trace checks on every recorded operation: accept <=> guard (sufficiency for well-formed values), later report replaces earlier, closed round disappears with exactly one aggregate, only closed rounds aggregate, unreported tips stay, tip creates/extends round with the right expiry, rotation only when the current window is closed, in index order with wrap, and gives the new query an open window.",
        ["value well-formedness class comes from the generator (hex of >= 32 bytes for spot prices; ABI tuple for deposits)",
         "observed stake = harness projection of the staking module (per selector delegation tokens, bonded flag, lock time); the spec sums what counts"])
