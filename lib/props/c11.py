"""C11 — slashing takes exactly the category's share of the disputed report's stake."""
import histcheck

PID = "C11"
COMMON = ["hist", "-proj", "dispute,hold,reporter,aggs", "-boundary", "-gov", "-jumps", "-valstatus", "-dbias", "3", "-sbias", "2", "-stories", "100", "-maxops", "6"]

def run(tier, seed, replay):
    return histcheck.run(
        PID, tier, seed, replay, "Dispute_Fund_Trace",
        COMMON + ["-n", "40", "-blocks", "40"],
        COMMON + ["-n", "300", "-blocks", "60"],
        "Dispute.tla (funding part): slash = category share of power*10^6, per-backer apportioning against the recorded stake snapshot (within one smallest unit per snapshot entry), jail 0 s / 600 s / none, flagging of the determined aggregate, at most one escrow per dispute hash, expiry of underfunded disputes after one day without slashing. Histories contain real, altered and invented reports, all three categories, fees paid in full / in parts / by several payers / from stake, and staking changes (redelegation, undelegation, validators unbonding) between report and dispute; every account's stake (delegations + unbonding entries) is projected before/after the funding message and decided by TLC. Open findings F-14 (report not compared with the store) and F-15 (apportioning against power*10^6) are explained by Dev_F14 / Dev_F15.",
        ["a funding message that also pays its fee from the signer's stake is excluded from the per-backer clause (two stake reductions in one message)",
         "per-backer tolerance: one smallest unit per snapshot entry of that backer"],
        scenarios=("Dispute_Fund_Trace", "dispute,hold,reporter,aggs"))
