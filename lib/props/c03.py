"""C03 — token supply changes only by the documented, exactly quantified events."""
import histcheck

PID = "C03"
COMMON = ["hist", "-proj", "bank,dispute", "-boundary", "-gov", "-jumps", "-valstatus", "-maxops", "6", "-stories", "50", "-bbias", "1", "-minthalf"]

def run(tier, seed, replay):
    return histcheck.run(
        PID, tier, seed, replay, "Ledger_Trace",
        COMMON + ["-n", "40", "-blocks", "40", "-mintinit"],
        COMMON + ["-n", "300", "-blocks", "60", "-mintinit"],
        "Ledger.tla gives the exact supply delta of every supply-changing event (time-based mint with 75/25 split, 2% tip burn, deposit claim, withdrawal, dispute execution burn, refund dust burn) and a frame condition for everything else; Ledger_MC checks exhaustively (small rate, all gap interleavings) that per-block truncation never exceeds the continuous inflation bound and the split loses nothing; recorded histories of the production app (bank GetSupply and the sum over ALL balances after every operation) are validated by TLC against Ledger_Trace with real magnitudes (big-number backend).",
        ["block time strictly increases by >= 1 ms", "SDK-internal burns (slashing, vetoed gov deposits) are not generated",
         "deposit amounts are decoded by the harness with the Go ABI library (projection); their correctness is C14/C15"],
        mc=[("Ledger_MC", "Ledger_MC_quick.cfg", "Ledger_MC_thorough.cfg", 8)],
        scenarios=("Ledger_Trace", "bank,dispute"))
