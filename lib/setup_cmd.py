"""setup: build the harness once (warms the Go build cache) and self-test the big-number backend."""
import os, re, shutil
import vf

def run():
    vf.build_harness("setup")
    # NumTest: the limb arithmetic of spec/num_big is a homomorphic image of TLC's integers.
    # Run with base 10 (every carry/borrow path is hit on 0..130) in a scratch copy.
    wd = vf.fresh(vf.rundir("setup", "numtest"))
    lib = vf.fresh(os.path.join(wd, "lib"))
    src = open(os.path.join(vf.SPEC, "num_big", "Num.tla")).read()
    assert "LimbBase == 10000" in src
    open(os.path.join(lib, "Num.tla"), "w").write(src.replace("LimbBase == 10000", "LimbBase == 10"))
    shutil.copy(os.path.join(vf.SPEC, "NumTest.tla"), wd)
    shutil.copy(os.path.join(vf.SPEC, "NumTest.cfg"), wd)
    import subprocess
    p = subprocess.run(["timeout", "600", "java", "-Xss512m", "-DTLA-Library=" + lib, "-cp", vf.JAR, "tlc2.TLC", "-metadir",
                        os.path.join(wd, "meta"), "-nowarning", "NumTest"], cwd=wd, stdout=subprocess.PIPE, stderr=subprocess.STDOUT, text=True)
    shutil.rmtree(os.path.join(wd, "meta"), ignore_errors=True)
    if "Model checking completed. No error has been found." not in p.stdout or "is false" in p.stdout:
        print(p.stdout[-3000:])
        print("setup: NumTest FAILED")
        return 2
    vf.log("NumTest passed (num_big agrees with Int, base 10, 0..130)")
    return 0
