"""Dispute scenarios: the product of the dimensions the dispute properties quantify over, enumerated by TLC
(DisputeScenario_MC), each executed on a fresh real chain (driver dscen), validated by the calling check's trace spec."""
import json, os, random
import vf, report


def run(pid, module, proj, tier, seed, extra=()):
    thorough = tier == "thorough"
    mc = vf.tlc_mc(pid, "DisputeScenario_MC", workers=1, cfg="DisputeScenario_MC.cfg", timeout=600)
    cases = mc.prints("CASE")
    if not cases:
        raise vf.Inconclusive("DisputeScenario_MC produced no scenarios")
    total = len(cases)
    rng = random.Random(seed)
    rng.shuffle(cases)
    if not thorough:
        cases = cases[:150]
    wd = vf.fresh(vf.rundir(pid, "scen"))
    cpath, tpath, spath = os.path.join(wd, "cases.ndjson"), os.path.join(wd, "trace.ndjson"), os.path.join(wd, "stats.json")
    open(cpath, "w").write("\n".join(json.dumps(c) for c in cases) + "\n")
    vf.run_driver(os.path.join(vf.rundir(pid, "bin"), "vh"), ["dscen", "-cases", cpath, "-trace", tpath, "-stats", spath, "-seed", str(seed), "-proj", proj] + list(extra), wd)
    st = json.load(open(spath))
    viols, s2, t2, _ = vf.validate_trace(pid, module, tpath, group_key="hist", nshards=8)
    def d(clause, rec):
        return "%s violated in scenario %s by %s" % (clause, json.dumps(cases[rec["hist"] - 1]), json.dumps({k: v for k, v in rec.items() if k != "post"})[:300])
    nnew, known, rp = report.classify(pid, viols, tpath, d)
    if rp:
        j = json.load(open(rp)); j["scenario"] = cases[j["violations"][0]["event"]["hist"] - 1]; json.dump(j, open(rp, "w"), indent=1)
    cov = {"scenarios_enumerated": total, "scenarios_executed": len(cases), "scenario_trace_lines": st["lines"],
           "scenario_events": st["events"], "scenario_accepted_events": st["ok_events"], "scenario_states": s2}
    return nnew, cov
