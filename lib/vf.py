"""Runner library: builds the Go harness from /repo's working tree, runs TLC (exhaustive, simulate,
trace validation), parses its output and writes evidence.  All verdicts come from TLC evaluating
/verif/spec/*.tla; this file only moves files around and counts."""
import json, os, re, shutil, subprocess, sys, time, glob, hashlib

VERIF = os.path.dirname(os.path.dirname(os.path.abspath(__file__)))
SPEC = os.path.join(VERIF, "spec")
RUN = os.path.join(VERIF, "run")
EVID = os.path.join(VERIF, "evidence")
JAR = "/opt/veriftools/tla/tla2tools.jar:/opt/veriftools/tla/CommunityModules-deps.jar"
GOENV = dict(GOFLAGS="-mod=mod", GOPROXY="off", GOSUMDB="off", GOTOOLCHAIN="local")


class Inconclusive(Exception):
    """anything that is not a verdict about the real code: exit 2"""


class DriverFailed(Inconclusive):
    def __init__(self, msg, rc, out):
        super().__init__(msg)
        self.rc, self.out = rc, out


def log(*a):
    print("[verif]", *a, flush=True)


# scratch of one invocation: run/<id>/<tier>[-<VERIF_RUN_TAG>]/..., so that a quick and a thorough run of the same
# property (or two tagged runs) can be in flight at once
RUN_SUB = "quick"


def rundir(pid, *sub):
    d = os.path.join(RUN, pid, RUN_SUB, *sub)
    os.makedirs(d, exist_ok=True)
    return d


def fresh(d):
    shutil.rmtree(d, ignore_errors=True)
    os.makedirs(d, exist_ok=True)
    return d


def build_harness(pid, race=False):
    """go build the harness against /repo's CURRENT working tree (replace => /repo), tag verif."""
    out = os.path.join(rundir(pid, "bin"), "vh" + ("-race" if race else ""))
    env = dict(os.environ, **GOENV)
    if race:
        env["CGO_ENABLED"] = "1"
    t0 = time.time()
    extra = []
    alt = os.environ.get("VERIF_REPO")   # development aid only: build against another checkout (a scratch worktree with a
    if alt:                              # seeded change) instead of /repo; the registered commands never set it
        hm = os.path.join(VERIF, "harness")
        modf = os.path.join(rundir(pid, "bin"), "alt.mod")
        open(modf, "w").write(open(os.path.join(hm, "go.mod")).read().replace("=> /repo\n", "=> %s\n" % alt))
        shutil.copy(os.path.join(hm, "go.sum"), modf[:-4] + ".sum")
        extra = ["-modfile=" + modf]
        env["GOCACHE"] = "/tmp/verif-altcache"   # every other checkout path fills its own build cache entries (80 GB once): kept apart, removed by the seed scripts
        log("building against %s instead of /repo" % alt)
    cmd = ["go", "build", "-tags", "verif"] + extra + (["-race"] if race else []) + ["-o", out, "./cmd/vh"]
    p = subprocess.run(cmd, cwd=os.path.join(VERIF, "harness"), env=env, stdout=subprocess.PIPE, stderr=subprocess.STDOUT, text=True)
    if p.returncode != 0:
        sys.stdout.write(p.stdout[-6000:])
        raise Inconclusive("harness build failed (the tree under /repo does not compile with the harness)")
    log("harness built in %.1fs" % (time.time() - t0))
    return out


def run_driver(vh, args, cwd, timeout=3600, env=None):
    t0 = time.time()
    e = dict(os.environ)
    if env:
        e.update(env)
    p = subprocess.run([vh] + args, cwd=cwd, stdout=subprocess.PIPE, stderr=subprocess.STDOUT, text=True, timeout=timeout, env=e)
    if p.returncode != 0:
        sys.stdout.write(p.stdout[-8000:])
        raise DriverFailed("driver %s exited %d" % (args[0], p.returncode), p.returncode, p.stdout)
    log("driver %s done in %.1fs" % (" ".join(args[:1]), time.time() - t0))
    return p.stdout


def stage_specs(workdir, extra_files=()):
    for f in glob.glob(os.path.join(SPEC, "*.tla")) + glob.glob(os.path.join(SPEC, "*.cfg")):
        shutil.copy(f, workdir)
    for f in extra_files:
        shutil.copy(f, workdir)


class TLCResult:
    def __init__(self, out, rc, wall):
        self.out, self.rc, self.wall = out, rc, wall
        m = re.search(r"(\d[\d,]*) states generated, (\d[\d,]*) distinct states found", out)
        self.generated = int(m.group(1).replace(",", "")) if m else 0
        self.distinct = int(m.group(2).replace(",", "")) if m else 0
        m = re.search(r"depth of the complete state graph search is (\d+)", out)
        self.depth = int(m.group(1)) if m else 0
        self.completed = "Model checking completed. No error has been found." in out
        self.inv_violated = re.findall(r"Invariant (\S+) is violated", out)
        self.prop_violated = re.findall(r"(?:Action|Temporal) property (\S+) (?:is|was) violated", out) + \
            (["<temporal>"] if "Temporal properties were violated" in out else [])
        self.postcondition_false = "Postcondition" in out and "is false" in out
        self.assumption_false = re.findall(r"Assumption (.*) is false", out)
        self.error = None
        m = re.search(r"^Error: (.*)$", out, re.M)
        if m and not self.inv_violated and not self.prop_violated:
            self.error = m.group(1)

    def prints(self, tag):
        """values printed by PrintT(<<tag, ToJson(x)>>): decoded JSON objects, in order"""
        res = []
        pat = re.compile(r'^<<"' + re.escape(tag) + r'", (".*")>>\s*$')
        for line in self.out.splitlines():
            m = pat.match(line)
            if m:
                res.append(json.loads(json.loads(m.group(1))))
        return res

    def coverage_zero(self):
        """action/definition lines with zero count under -coverage (vacuity)"""
        return [l for l in self.out.splitlines() if re.search(r": 0$", l) and "line" in l]


def tlc(workdir, module, lib, workers=1, cfg=None, extra=(), timeout=1800, heap="4g", simulate=None, depth=None, seed=None, dfs=False, coverage=False):
    """run TLC on workdir/module.tla; lib is 'num_native' or 'num_big' (the Num backend)"""
    meta = fresh(os.path.join(workdir, "meta-" + module + ("-" + str(simulate) if simulate else "")))
    jtmp = os.path.join(workdir, "jtmp"); os.makedirs(jtmp, exist_ok=True)   # TLC's scratch directories stay out of /tmp
    cmd = ["timeout", str(timeout), "java", "-Xss512m", "-Xmx" + heap, "-XX:+UseParallelGC", "-Djava.io.tmpdir=" + jtmp,
           "-DTLA-Library=" + os.path.join(SPEC, lib)]
    if dfs:
        cmd.append("-Dtlc2.tool.queue.IStateQueue=StateDeque")
    cmd += ["-cp", JAR, "tlc2.TLC", "-workers", str(workers), "-metadir", meta, "-nowarning"]
    if cfg:
        cmd += ["-config", cfg]
    if simulate:
        cmd += ["-simulate", "num=%d" % simulate]
    if depth:
        cmd += ["-depth", str(depth)]
    if seed is not None:
        cmd += ["-seed", str(seed)]
    if coverage:
        cmd += ["-coverage", "1"]
    cmd += list(extra) + [module]
    t0 = time.time()
    p = subprocess.run(cmd, cwd=workdir, stdout=subprocess.PIPE, stderr=subprocess.STDOUT, text=True)
    wall = time.time() - t0
    shutil.rmtree(meta, ignore_errors=True)
    for junk in ("states",):
        shutil.rmtree(os.path.join(workdir, junk), ignore_errors=True)
    if p.returncode == 124:
        raise Inconclusive("TLC timed out after %ds on %s" % (timeout, module))
    r = TLCResult(p.stdout, p.returncode, wall)
    if "java.lang.OutOfMemoryError" in p.stdout or "StackOverflowError" in p.stdout:
        sys.stdout.write(p.stdout[-3000:])
        raise Inconclusive("TLC resource failure on %s" % module)
    return r


def tlc_mc(pid, module, lib="num_native", workers=8, timeout=1800, heap="8g", cfg=None, coverage=False, require_complete=True):
    """exhaustive design-level check; returns TLCResult. A violated invariant here is a *candidate*
    (model level); callers decide how to replay it. Spec errors are Inconclusive."""
    wd = fresh(rundir(pid, "tlc", module))
    stage_specs(wd)
    r = tlc(wd, module, lib, workers=workers, timeout=timeout, heap=heap, cfg=cfg, coverage=coverage)
    with open(os.path.join(wd, "tlc.out"), "w") as f:
        f.write(r.out)
    if r.error or r.assumption_false:
        sys.stdout.write(r.out[-4000:])
        raise Inconclusive("TLC error in %s: %s" % (module, r.error or r.assumption_false))
    if require_complete and not r.completed and not r.inv_violated and not r.prop_violated:
        sys.stdout.write(r.out[-4000:])
        raise Inconclusive("TLC did not complete on %s" % module)
    log("TLC %s: %d generated / %d distinct states, depth %d, %.1fs" % (module, r.generated, r.distinct, r.depth, r.wall))
    return r


def apalache_inductive(pid, module, timeout=900):
    """Apalache: Init => IndInv (length 0) and IndInv /\ Next => IndInv' (length 1) for spec/<module>.tla, which defines
    CInit, Init, IndInit (an arbitrary state satisfying IndInv, in assignment form), Next, IndInv.  Returns wall seconds;
    a counterexample or tool error is Inconclusive (a statement about the model, never a verdict about the code)."""
    wd = fresh(rundir(pid, "apalache", module))
    shutil.copy(os.path.join(SPEC, module + ".tla"), wd)
    t0 = time.time()
    for init, length in (("Init", "0"), ("IndInit", "1")):
        cmd = ["timeout", str(timeout), "apalache-mc", "check", "--out-dir=" + os.path.join(wd, "out"), "--cinit=CInit", "--init=" + init,
               "--inv=IndInv", "--length=" + length, module + ".tla"]
        env = dict(os.environ)
        jtmp = os.path.join(wd, "jtmp"); os.makedirs(jtmp, exist_ok=True)
        env["JVM_ARGS"] = (env.get("JVM_ARGS", "") + " -Djava.io.tmpdir=" + jtmp).strip()   # scratch stays out of /tmp
        p = subprocess.run(cmd, cwd=wd, stdout=subprocess.PIPE, stderr=subprocess.STDOUT, text=True, env=env)
        if p.returncode != 0 or "The outcome is: NoError" not in p.stdout:
            sys.stdout.write(p.stdout[-3000:])
            raise Inconclusive("Apalache did not establish the inductive invariant of %s (--init=%s, exit %d)" % (module, init, p.returncode))
    shutil.rmtree(os.path.join(wd, "out"), ignore_errors=True)
    wall = time.time() - t0
    log("Apalache %s: Init => IndInv and IndInv /\\ Next => IndInv' established, %.1fs" % (module, wall))
    return wall


def split_groups(trace_path, key, nshards):
    """split an NDJSON trace into <= nshards files at boundaries where field `key` changes;
    returns [(path, first_line_number_1based, nlines)]"""
    lines = open(trace_path).read().splitlines()
    if not lines:
        return []
    bounds = [0]
    prev = None
    pat = re.compile(r'"%s":("[^"]*"|\d+)' % re.escape(key))
    for i, ln in enumerate(lines):
        m = pat.search(ln)
        k = m.group(1) if m else None
        if i > 0 and k != prev:
            bounds.append(i)
        prev = k
    bounds.append(len(lines))
    ngroups = len(bounds) - 1
    nshards = max(1, min(nshards, ngroups))
    target = len(lines) / nshards
    shards, start = [], 0
    for s in range(nshards):
        if s == nshards - 1:
            end = len(lines)
        else:
            want = (s + 1) * target
            end = next((b for b in bounds if b >= want), len(lines))
            if end <= start:
                continue
        if end > start:
            shards.append((start, end))
        start = end
        if start >= len(lines):
            break
    out = []
    base = os.path.dirname(trace_path)
    for i, (a, b) in enumerate(shards):
        d = fresh(os.path.join(base, "shard%02d" % i))
        with open(os.path.join(d, "trace.ndjson"), "w") as f:
            f.write("\n".join(lines[a:b]) + "\n")
        out.append((d, a + 1, b - a))
    return out


def validate_trace(pid, module, trace_path, group_key=None, nshards=8, lib="num_big", timeout=3000, heap="3g", extra_files=()):
    """TLC trace validation of an NDJSON trace against spec `module` (a *_Trace spec using the
    viol-accumulating idiom).  Returns (violations [(global_line, clause)], states, transitions, wall).
    The trace is accepted iff every line was consumed (POSTCONDITION Accepted) and viol is empty."""
    t0 = time.time()
    nlines = sum(1 for _ in open(trace_path))
    if nlines == 0:
        raise Inconclusive("empty trace %s (dead driver)" % trace_path)
    if group_key and nshards > 1:
        shards = split_groups(trace_path, group_key, nshards)
    else:
        d = fresh(os.path.join(os.path.dirname(trace_path), "shard00"))
        shutil.copy(trace_path, os.path.join(d, "trace.ndjson"))
        shards = [(d, 1, nlines)]
    procs = []
    open_ids = sorted({k["id"] for k in load_known() if k.get("status") == "open" and k.get("property") == pid})
    for d, first, n in shards:
        stage_specs(d, extra_files)
        # Dev_* deviations of the trace spec are enabled only for findings listed (open) in known_findings.jsonl
        cfgp = os.path.join(d, module + ".cfg")
        if os.path.exists(cfgp):
            c = open(cfgp).read()
            c = c.replace("KNOWN = {}", "KNOWN = {%s}" % ", ".join('"%s"' % i for i in open_ids))
            open(cfgp, "w").write(c)
        meta = os.path.join(d, "meta")
        jtmp = os.path.join(d, "jtmp"); os.makedirs(jtmp, exist_ok=True)
        cmd = ["timeout", str(timeout), "java", "-Xss512m", "-Xmx" + heap, "-XX:+UseParallelGC", "-Djava.io.tmpdir=" + jtmp,
               "-DTLA-Library=" + os.path.join(SPEC, lib), "-cp", JAR, "tlc2.TLC", "-workers", "1",
               "-metadir", meta, "-nowarning", module]
        f = open(os.path.join(d, "tlc.out"), "w")
        procs.append((subprocess.Popen(cmd, cwd=d, stdout=f, stderr=subprocess.STDOUT), f, d, first, n))
    viols, states, trans = [], 0, 0
    for p, f, d, first, n in procs:
        rc = p.wait()
        f.close()
        out = open(os.path.join(d, "tlc.out")).read()
        shutil.rmtree(os.path.join(d, "meta"), ignore_errors=True)
        if rc == 124:
            raise Inconclusive("TLC timed out validating %s" % d)
        r = TLCResult(out, rc, 0)
        if r.error or "OutOfMemoryError" in out or "StackOverflowError" in out:
            sys.stdout.write(out[-4000:])
            raise Inconclusive("TLC error validating %s: %s" % (d, r.error))
        vs = r.prints("VIOLS")
        if r.postcondition_false or not r.completed or not vs:
            # the spec could not consume the whole trace: the line after the longest matched prefix
            sys.stdout.write(out[-3000:])
            raise Inconclusive("trace spec %s did not consume the whole trace in %s (depth %d of %d): spec/harness mismatch" % (module, d, r.depth, n))
        for ln, clause in vs[-1]:
            viols.append((first + ln - 1, clause))
        states += r.distinct
        trans += r.generated
    for d, _, _ in shards:
        # keep tlc.out for diagnosis, drop staged specs
        for fpath in glob.glob(os.path.join(d, "*.tla")) + glob.glob(os.path.join(d, "*.cfg")):
            os.remove(fpath)
    viols.sort()
    wall = time.time() - t0
    log("TLC %s validated %d trace lines in %d shard(s): %d violation(s), %.1fs" % (module, nlines, len(shards), len(viols), wall))
    return viols, states, trans, wall


def load_known():
    p = os.path.join(VERIF, "known_findings.jsonl")
    res = []
    if os.path.exists(p):
        for ln in open(p):
            ln = ln.strip()
            if ln and not ln.startswith("#"):
                res.append(json.loads(ln))
    return res


def write_evidence(pid, tier, seed, level, coverage, wall, violations, assumptions):
    evid = EVID
    if os.environ.get("VERIF_EVIDENCE_DIR"):
        # smoke runs that must not replace the committed evidence
        evid = os.environ["VERIF_EVIDENCE_DIR"]
    elif os.environ.get("VERIF_REPO"):
        # a development run against another checkout (seeded changes): never into the committed evidence directory
        evid = os.path.join(VERIF, "run", "evidence-alt")
    os.makedirs(evid, exist_ok=True)
    ev = {"property_id": pid, "tier": tier, "seed": int(seed), "level": level, "coverage": coverage,
          "assumptions": assumptions, "wall_s": round(wall, 2), "violations": int(violations)}
    with open(os.path.join(evid, pid + ".json"), "w") as f:
        json.dump(ev, f, indent=1, sort_keys=True)
        f.write("\n")


def trace_line(trace_path, n):
    with open(trace_path) as f:
        for i, ln in enumerate(f, 1):
            if i == n:
                return json.loads(ln)
    return None
