"""Shared shape of the checks that validate recorded chain histories against a *_Trace spec."""
import json, os, time
import vf, report


def run(pid, tier, seed, replay, module, driver_args_quick, driver_args_thorough, explanation, assumptions,
        mc=None, describe=None, nshards=8, extra_cov=None, level="model_checking", scenarios=None):
    """mc: optional list of (module, cfg_quick, cfg_thorough, workers) exhaustive design-level runs"""
    t0 = time.time()
    thorough = tier == "thorough"
    wd = vf.fresh(vf.rundir(pid, "work"))
    vh = vf.build_harness(pid)
    mc_states = mc_trans = 0
    mc_info = []
    for (m, cq, ct, workers) in (mc or []):
        r = vf.tlc_mc(pid, m, workers=workers, cfg=ct if thorough else cq, timeout=3000 if thorough else 600)
        if r.inv_violated or r.prop_violated:
            # a design-level counterexample is never a verdict about the code by itself
            raise vf.Inconclusive("design-level model %s violates %s (model error or unreproduced candidate)" % (m, r.inv_violated + r.prop_violated))
        mc_states += r.distinct
        mc_trans += r.generated
        mc_info.append({"module": m, "cfg": ct if thorough else cq, "distinct_states": r.distinct, "generated": r.generated, "depth": r.depth, "wall_s": round(r.wall, 1)})
    tpath = os.path.join(wd, "trace.ndjson")
    spath = os.path.join(wd, "stats.json")
    args = list(driver_args_thorough if thorough else driver_args_quick) + ["-seed", str(seed)]
    if replay:
        args = json.load(open(replay))["driver_args"]
    vf.run_driver(vh, args + ["-trace", tpath, "-stats", spath], wd)
    stats = json.load(open(spath))
    viols, st, tr, wall = vf.validate_trace(pid, module, tpath, group_key="hist", nshards=nshards)
    def d(clause, rec):
        if describe:
            return describe(clause, rec)
        r = {k: v for k, v in rec.items() if k != "post"}
        return "%s violated by %s" % (clause, json.dumps(r)[:400])
    nnew, known, rp = report.classify(pid, viols, tpath, d)
    if rp:
        j = json.load(open(rp))
        h = j["violations"][0]["event"]["hist"]
        j["driver_args"] = args + ["-only", str(h)]
        json.dump(j, open(rp, "w"), indent=1)
    msgs = {k: v for k, v in stats["events"].items()}
    cov = {
        "states": mc_states + st, "transitions": mc_trans + tr,
        "traces_validated_against_impl": stats["histories"],
        "samples": [{k: v for k, v in s.items() if k != "post"} for s in stats["samples"][:3]] or [{"note": "no sample"}],
        "design_level": mc_info, "trace_lines": stats["lines"],
        "events": stats["events"], "accepted_events": stats["ok_events"],
        "known_findings_seen": known, "model_drift": dict(report.last_drift),
        "explanation": explanation,
    }
    if extra_cov:
        cov.update(extra_cov(stats))
    if scenarios and not replay:
        # (trace spec, projections): the TLC-enumerated dispute scenarios, executed on real chains, through the same spec
        import scen
        n2, c2 = scen.run(pid, scenarios[0], scenarios[1], tier, seed, extra=list(scenarios[2]) if len(scenarios) > 2 else [])
        nnew += n2
        cov.update(c2)
    vf.write_evidence(pid, tier, seed, level, cov, time.time() - t0, nnew, assumptions)
    return 1 if nnew else 0
