#!/bin/bash
# seedtest2.sh <worktree with out/> <name> <check-id>... : like seedtest.sh, but the checks are built against the scratch
# worktree (VERIF_REPO) with the patch applied there, so that /repo stays untouched while something else uses it.
# Development aid: the stored verif_result.json is refreshed later by seedrun.sh, which applies the patch to /repo.
export GOFLAGS=-mod=mod GOPROXY=off GOSUMDB=off GOTOOLCHAIN=local
W=$1; NAME=$2; shift 2
cd $W || exit 2
DEMO=$(python3 -c "import json;print(json.load(open('out/meta.json'))['demo_cmd'])")
git checkout -q -- . 2>/dev/null
echo "== demo without change:"; (eval "$DEMO") >/tmp/seed_demo_clean_$NAME.txt 2>&1; echo "rc=$?"
git apply out/patch.diff || { echo "patch does not apply in worktree"; exit 2; }
echo "== build with change:"; go build ./... && echo ok
echo "== demo with change:"; (eval "$DEMO") >/tmp/seed_demo_mut_$NAME.txt 2>&1; echo "rc=$?"
mkdir -p /verif/seeded/$NAME && cp out/* /verif/seeded/$NAME/
cd /verif
echo "{\"confirmed\": \"demo passes on clean tree, fails with patch (run in scratch worktree $W)\", \"checks\": {" > /verif/seeded/$NAME/verif_result.json
for c in "$@"; do VERIF_REPO=$W VERIF_RUN_TAG=seed2 ./check $c > /tmp/seed_check_${NAME}_$c.txt 2>&1; rc=$?; echo "\"$c\": {\"quick_rc\": $rc, \"clauses\": \"$(grep -o 'violated clause [A-Za-z_]*' /tmp/seed_check_${NAME}_$c.txt | sort | uniq -c | tr '\n' ';' | tr -s ' ')\"}," >> /verif/seeded/$NAME/verif_result.json; grep -E "VIOLATION|violated clause|INCONCLUSIVE|validated" /tmp/seed_check_${NAME}_$c.txt | cut -c1-300 | head -4; echo "$NAME $c rc=$rc"; done
echo "\"_\": {}}}" >> /verif/seeded/$NAME/verif_result.json
git -C $W checkout -q -- .
rm -rf /tmp/verif-altcache
