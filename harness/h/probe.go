package h

import (
	"encoding/hex"
	"fmt"
	"time"

	"github.com/ethereum/go-ethereum/crypto"
	"github.com/tellor-io/layer/utils"
	oracletypes "github.com/tellor-io/layer/x/oracle/types"

	"cosmossdk.io/collections"
)

// Probe calls every aggregate getter of the oracle keeper with generated arguments (timestamps before
// the first, between, equal to and after stored ones; indexes in and out of range) and records the
// answers; it also records the previous/next report timestamps stored in the bridge attestation
// snapshots created in this block. Pure reads: the chain state is not changed.
func (w *World) Probe() {
	type ent struct {
		ts uint64
	}
	byQ := map[string][]uint64{}
	qid := map[string][]byte{}
	_ = w.App.OracleKeeper.Aggregates.Walk(w.Ctx, nil, func(k collections.Pair[[]byte, uint64], a oracletypes.Aggregate) (bool, error) {
		n := w.QN(k.K1())
		byQ[n] = append(byQ[n], k.K2())
		qid[n] = k.K1()
		return false, nil
	})
	// one query without aggregates as well
	if _, ok := byQ["qada"]; !ok {
		byQ["qada"] = nil
		qid["qada"] = utils.QueryIDFromData(w.QData["qada"])
	}
	var probes []Rec
	names := SortedKeys(byQ)
	if len(names) > 4 {
		off := w.pick(len(names))
		names = append(names[off:], names[:off]...)[:4]
	}
	for _, n := range names {
		id := qid[n]
		tss := byQ[n]
		args := []uint64{0, 1, uint64(w.Time.UnixMilli()) + 5000}
		for _, t := range tss {
			args = append(args, t-1, t, t+1)
		}
		if len(args) > 12 {
			sel := args[:3]
			for i := 0; i < 9; i++ {
				sel = append(sel, args[3+w.pick(len(args)-3)])
			}
			args = sel
		}
		// current
		if a, ts, err := w.App.OracleKeeper.GetCurrentAggregateReport(w.Ctx, id); err == nil && a != nil {
			probes = append(probes, Rec{"k": "cur", "q": n, "ok": true, "ts": NumI64(ts.UnixMilli()), "val": a.AggregateValue})
		} else {
			probes = append(probes, Rec{"k": "cur", "q": n, "ok": false})
		}
		for _, T := range args {
			tt := time.UnixMilli(int64(T))
			if a, ts, err := w.App.OracleKeeper.GetAggregateBefore(w.Ctx, id, tt); err == nil && a != nil {
				probes = append(probes, Rec{"k": "before", "q": n, "T": NumU64(T), "ok": true, "ts": NumI64(ts.UnixMilli()), "val": a.AggregateValue, "flag": a.Flagged})
			} else {
				probes = append(probes, Rec{"k": "before", "q": n, "T": NumU64(T), "ok": false})
			}
			r := guard(func() error {
				ts, err := w.App.OracleKeeper.GetTimestampBefore(w.Ctx, id, tt)
				if err == nil {
					probes = append(probes, Rec{"k": "tsbefore", "q": n, "T": NumU64(T), "ok": true, "ts": NumI64(ts.UnixMilli())})
				}
				return err
			})
			if !r.Ok {
				probes = append(probes, Rec{"k": "tsbefore", "q": n, "T": NumU64(T), "ok": false})
			}
			r = guard(func() error {
				ts, err := w.App.OracleKeeper.GetTimestampAfter(w.Ctx, id, tt)
				if err == nil {
					probes = append(probes, Rec{"k": "tsafter", "q": n, "T": NumU64(T), "ok": true, "ts": NumI64(ts.UnixMilli())})
				}
				return err
			})
			if !r.Ok {
				probes = append(probes, Rec{"k": "tsafter", "q": n, "T": NumU64(T), "ok": false})
			}
		}
		for _, i := range []uint64{0, 1, uint64(len(tss)), uint64(len(tss)) + 1, uint64(w.pick(len(tss) + 1))} {
			if i > 0 && i == uint64(len(tss))+1 && w.pick(2) == 0 {
				i = uint64(len(tss)) - 1 + 0
			}
			if a, ts, err := w.App.OracleKeeper.GetAggregateByIndex(w.Ctx, id, i); err == nil && a != nil {
				probes = append(probes, Rec{"k": "byidx", "q": n, "i": int(i), "ok": true, "ts": NumI64(ts.UnixMilli()), "val": a.AggregateValue})
			} else {
				probes = append(probes, Rec{"k": "byidx", "q": n, "i": int(i), "ok": false})
			}
		}
	}
	// snapshots created in this block: for the block's own aggregates (end-block) and for older aggregates of any query
	// (attestation requests)
	for _, n := range SortedKeys(byQ) {
		for _, ts := range byQ[n] {
			key := crypto.Keccak256([]byte(hex.EncodeToString(qid[n]) + fmt.Sprint(ts)))
			snaps, err := w.App.BridgeKeeper.AttestSnapshotsByReportMap.Get(w.Ctx, key)
			if err != nil {
				continue
			}
			for _, s := range snaps.Snapshots {
				if d, err := w.App.BridgeKeeper.AttestSnapshotDataMap.Get(w.Ctx, s); err == nil && d.AttestationTimestamp == uint64(w.Time.UnixMilli()) {
					probes = append(probes, Rec{"k": "snap", "q": n, "ts": NumU64(d.Timestamp), "prev": NumU64(d.PrevReportTimestamp), "next": NumU64(d.NextReportTimestamp), "at": NumU64(d.AttestationTimestamp), "ok": true})
				}
			}
		}
	}
	w.emit("Probe", Rec{"probes": probes}, PhaseResult{Ok: true})
}
