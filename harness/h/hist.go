package h

import (
	"encoding/hex"
	"fmt"
	"math/big"
	"os"
	"strings"
	"time"

	"github.com/tellor-io/layer/utils"
	disputetypes "github.com/tellor-io/layer/x/dispute/types"
	oracletypes "github.com/tellor-io/layer/x/oracle/types"
	registrytypes "github.com/tellor-io/layer/x/registry/types"

	sdkmath "cosmossdk.io/math"
	sdk "github.com/cosmos/cosmos-sdk/types"

	"github.com/ethereum/go-ethereum/accounts/abi"
	stakingtypes "github.com/cosmos/cosmos-sdk/x/staking/types"
)

// governance-set parameters at their boundaries (zero minimum stake, zero selector cap ...) in boundary mode
var govBoundary = os.Getenv("VERIF_NOGOVBOUND") == ""

// HistOpts tunes the random history generator. The generator only CHOOSES inputs; it never judges.
type HistOpts struct {
	Blocks        int
	MaxOpsPerBlk  int
	Boundary      bool // include malformed / boundary inputs (0x values, forged reports, gov list changes by gov ...)
	GovOps        bool // governance-signed privileged ops (cycle list, params, spec updates, mint init)
	NoBadValues   bool // never submit values that the known halting defects need (used while a finding is open)
	ValsetBias    int  // EVM registration at any time, checkpoint signing, power shifts around 5%, two-week gaps (C16)
	Probe         bool // after every block, probe the aggregate getters and record the answers (C08)
	Fanout        bool // a dispute story whose fee is paid from the bond of a reporter with several selectors, twice (every per-account list has several entries)
	TieBias       bool // equal-power reporters submitting a few distinct values (equal-weight ties in weighted-mode rounds)
	Stories       int  // percentage of histories that contain a scripted dispute life cycle
	ValSlash      bool // SDK-native slashing of a validator for an infraction (share price below one, unbonding entries below their initial balance)
	ValStatus     bool // SDK-native validator jail / unjail events (validators leave and re-enter the bonded set)
	DisputeBias   int  // extra weight for dispute lifecycle ops
	StakingBias   int
	BridgeBias    int
	TimeJumps     bool
	MintInitEarly bool
	Quiet         bool // scripted blocks only: no random operations mixed into them
}

func (w *World) pick(n int) int { return w.Rng.Intn(n) }

func (w *World) user() *Actor { return w.Users[w.pick(len(w.Users))] }
func (w *World) val() *Val    { return w.Vals[w.pick(len(w.Vals))] }

func (w *World) amount() int64 {
	switch w.pick(6) {
	case 0:
		return 1
	case 1:
		return int64(1 + w.pick(100))
	case 2:
		return int64(1_000_000 * (1 + w.pick(5)))
	case 3:
		return int64(1_000_000*(1+w.pick(300)) + w.pick(1_000_000))
	case 4:
		return int64(10_000 + w.pick(5_000_000))
	default:
		return int64(1 + w.Rng.Int63n(3_000_000_000))
	}
}

func hex32(v uint64) string { return fmt.Sprintf("%064x", v) }

// spotValue returns a value for a uint256 spot price query; classes follow the property's list.
func (w *World) spotValue(o HistOpts) string {
	if o.Boundary && !o.NoBadValues && w.pick(8) == 0 {
		switch w.pick(7) {
		case 0:
			return "0x" + hex32(uint64(w.pick(1000)))
		case 1:
			return "0X" + hex32(uint64(w.pick(1000)))
		case 2:
			return hex32(uint64(w.pick(1000)))[1:] // odd length
		case 3:
			return ""
		case 4:
			return hex32(1) + hex32(2) // over-long
		case 5:
			return "zz" + hex32(1)[2:]
		default:
			return strings.ToUpper(hex32(uint64(0xabcdef)))
		}
	}
	vals := []uint64{1, 2, 3, 1000, 1001, 0xabcdef, 1 << 40}
	return hex32(vals[w.pick(len(vals))])
}

func (w *World) depositValue(o HistOpts) string {
	if o.TieBias {
		// two fixed candidate values: with equal-power reporters this produces exact ties
		rcp := w.Users[0].Addr.String()
		return DepositValue(rcp, new(big.Int).Mul(big.NewInt(int64(1+w.pick(2))), big.NewInt(1e15)), big.NewInt(0))
	}
	rc := w.user().Addr.String()
	amt := new(big.Int).Mul(big.NewInt(int64(1+w.pick(5000))), big.NewInt(1e12))
	tip := new(big.Int).Mul(big.NewInt(int64(w.pick(3))), big.NewInt(1e12))
	if o.Boundary && w.pick(5) == 0 {
		switch w.pick(5) {
		case 0:
			tip = new(big.Int).Add(amt, big.NewInt(1e12)) // tip > amount
		case 1:
			amt = big.NewInt(int64(w.pick(1e9))) // < 10^12
		case 2:
			rc = "not-a-bech32"
		case 3:
			return "deadbeef" // malformed encoding
		default:
			amt = new(big.Int).Mul(big.NewInt(1e12), new(big.Int).Lsh(big.NewInt(1), 62))
		}
	}
	return DepositValue(rc, amt, tip)
}

func (w *World) reporters() []*Actor {
	var out []*Actor
	for _, a := range w.Actors {
		if ok, _ := w.App.ReporterKeeper.Reporters.Has(w.Ctx, a.Addr.Bytes()); ok {
			out = append(out, a)
		}
	}
	for _, v := range w.Vals {
		if ok, _ := w.App.ReporterKeeper.Reporters.Has(w.Ctx, v.Oper.Addr.Bytes()); ok {
			a := v.Oper
			out = append(out, &a)
		}
	}
	return out
}

func (w *World) disputeIds() []uint64 {
	var ids []uint64
	_ = w.App.DisputeKeeper.Disputes.Walk(w.Ctx, nil, func(id uint64, _ disputetypes.Dispute) (bool, error) {
		ids = append(ids, id)
		return false, nil
	})
	return ids
}

func (w *World) anyActor() *Actor {
	n := len(w.Users) + len(w.Vals) + 1
	i := w.pick(n)
	if i < len(w.Users) {
		return w.Users[i]
	}
	i -= len(w.Users)
	if i < len(w.Vals) {
		a := w.Vals[i].Oper
		return &a
	}
	return w.Team
}

func (w *World) currentCycleQuery() string {
	qd, err := w.App.OracleKeeper.GetCurrentQueryInCycleList(w.Ctx)
	if err != nil {
		return "qeth"
	}
	for n, d := range w.QData {
		if string(d) == string(qd) {
			return n
		}
	}
	return "qeth"
}

// Bootstrap makes some users delegators + reporters/selectors so that later ops have something to act on.
func (w *World) Bootstrap(o HistOpts) {
	if !w.Begin(time.Second) {
		return
	}
	if o.TieBias {
		for _, u := range w.Users {
			w.Delegate(u, w.Vals[0], 100_000_000)
			w.CreateReporter(u, sdkmath.LegacyZeroDec(), 1_000_000)
		}
		// a weighted-mode query type with a one-block window (anyone may register a spec)
		spec := registrytypes.GenesisDataSpec()
		spec.AggregationMethod = "weighted-mode"
		spec.ReportBlockWindow = 1
		spec.Registrar = ""
		spec.AbiComponents = []*registrytypes.ABIComponent{{Name: "x", FieldType: "string"}}
		w.RegisterSpec(w.Users[0], "tiemode", spec)
		inner, _ := abi.Arguments{{Type: tString}}.Pack("a")
		qd, _ := abi.Arguments{{Type: tString}, {Type: tBytes}}.Pack("tiemode", inner)
		w.addQuery("qmode", qd)
		w.End()
		return
	}
	for i, u := range w.Users {
		if w.pick(5) == 0 {
			continue
		}
		w.Delegate(u, w.Vals[i%len(w.Vals)], int64(1_000_000*(2+w.pick(400))+w.pick(1_000_000)))
		if w.pick(3) == 0 {
			w.Delegate(u, w.Vals[(i+1)%len(w.Vals)], int64(1_000_000*(1+w.pick(50))+w.pick(1_000_000)))
		}
	}
	nrep := 1 + w.pick(3)
	for i := 0; i < nrep && i < len(w.Users); i++ {
		w.CreateReporter(w.Users[i], w.commission(o), int64(1_000_000*(1+w.pick(3))))
	}
	for i := nrep; i < len(w.Users); i++ {
		if w.pick(3) != 0 {
			w.SelectReporter(w.Users[i], w.Users[w.pick(nrep)])
		}
	}
	if o.MintInitEarly {
		w.MintInit(w.Gov)
	}
	w.End()
}

func (w *World) commission(o HistOpts) sdkmath.LegacyDec {
	choices := []string{"0", "0.05", "0.5", "1", "0.333333333333333333", "0.1"}
	if o.Boundary {
		choices = append(choices, "5", "100", "101", "-1")
	}
	return sdkmath.LegacyMustNewDecFromStr(choices[w.pick(len(choices))])
}

// RandomOp performs one randomly chosen message.
func (w *World) RandomOp(o HistOpts) {
	type op struct {
		w int
		f func()
	}
	if o.TieBias && w.pick(2) == 0 {
		if _, ok := w.QData["qmode"]; ok {
			// burst: a tip, then 2 or 4 equal-power reporters split evenly between two values
			w.Tip(w.user(), "qmode", int64(1_000_000+w.pick(3_000_000)))
			k := 2 * (1 + w.pick(2))
			off := w.pick(len(w.Users))
			// the two candidate values: different numbers, or two accepted spellings of one number
			a := hex32(0xabcdef)
			pairs := [][2]string{{hex32(1), hex32(2)}, {a, "0x" + a}, {a, strings.ToUpper(a)}, {"0X" + a, "0x" + a}, {hex32(2), hex32(1)}}
			pr := pairs[w.pick(len(pairs))]
			for i := 0; i < k; i++ {
				w.Submit(w.Users[(off+i)%len(w.Users)], "qmode", pr[i%2])
			}
			return
		}
	}
	ops := []op{
		{8 + o.StakingBias, func() { w.Delegate(w.anyActor(), w.val(), w.amount()) }},
		{5 + o.StakingBias, func() { w.Undelegate(w.anyActor(), w.val(), w.amount()) }},
		{3 + o.StakingBias, func() {
			a, b := w.val(), w.val()
			w.Redelegate(w.anyActor(), a, b, w.amount())
		}},
		{3, func() { w.CreateReporter(w.anyActor(), w.commission(o), int64(1_000_000*(1+w.pick(3)))) }},
		{4, func() { w.SelectReporter(w.anyActor(), w.anyActor()) }},
		{3, func() { w.SwitchReporter(w.anyActor(), w.anyActor()) }},
		{1, func() { w.RemoveSelector(w.anyActor(), w.anyActor()) }},
		{2, func() { w.Unjail(w.anyActor()) }},
		{4, func() { w.WithdrawTip(w.anyActor(), w.val()) }},
		{8, func() {
			qs := []string{"qeth", "qbtc", "qtrb", "qsol", "qada", "dep1", "dep2", "wd1"}
			w.Tip(w.anyActor(), qs[w.pick(len(qs))], w.amount())
		}},
		{14, func() { w.randomSubmit(o) }},
		{4 + o.DisputeBias, func() { w.randomPropose(o) }},
		{3 + o.DisputeBias, func() {
			if ids := w.disputeIds(); len(ids) > 0 {
				w.AddFee(w.anyActor(), ids[w.pick(len(ids))], w.amount(), w.pick(4) == 0)
			}
		}},
		{2 + o.DisputeBias, func() {
			// a dispute still waiting for its fee gets a payment FROM BOND, by a reporter or by a plain selector
			var pre []uint64
			_ = w.App.DisputeKeeper.Disputes.Walk(w.Ctx, nil, func(id uint64, d disputetypes.Dispute) (bool, error) {
				if d.DisputeStatus == disputetypes.Prevote && !w.Time.After(d.DisputeEndTime) {
					pre = append(pre, id)
				}
				return false, nil
			})
			if len(pre) == 0 {
				return
			}
			var sels []*Actor
			for _, a := range w.Actors {
				if _, err := w.App.ReporterKeeper.Selectors.Get(w.Ctx, a.Addr.Bytes()); err == nil {
					sels = append(sels, a)
				}
			}
			if len(sels) == 0 {
				return
			}
			w.AddFee(sels[w.pick(len(sels))], pre[w.pick(len(pre))], int64(10_000+w.pick(200_000)), true)
		}},
		{6 + 2*o.DisputeBias, func() {
			if ids := w.disputeIds(); len(ids) > 0 {
				w.Vote(w.anyActor(), ids[w.pick(len(ids))], disputetypes.VoteEnum(w.pick(3)))
			}
		}},
		{1 + o.DisputeBias, func() {
			if ids := w.disputeIds(); len(ids) > 0 && len(w.Reports) > 0 {
				w.AddEvidence(w.anyActor(), ids[w.pick(len(ids))], w.Reports[w.pick(len(w.Reports))])
			}
		}},
		{3 + 2*o.DisputeBias, func() {
			if ids := w.disputeIds(); len(ids) > 0 {
				w.WithdrawFeeRefund(w.anyActor(), w.anyActor(), ids[w.pick(len(ids))])
			}
		}},
		{3 + 2*o.DisputeBias, func() {
			if ids := w.disputeIds(); len(ids) > 0 {
				w.ClaimReward(w.anyActor(), ids[w.pick(len(ids))])
			}
		}},
		{2 + o.BridgeBias, func() {
			rc := "0x00000000000000000000000000000000000000bb"
			if o.Boundary && w.pick(4) == 0 {
				rc = []string{"", "zz", "00bb", strings.Repeat("ab", 40)}[w.pick(4)]
			}
			w.WithdrawTokens(w.anyActor(), rc, w.amount())
		}},
		{2 + o.BridgeBias, func() {
			n := 1 + w.pick(2)
			var ids, idx []uint64
			for i := 0; i < n; i++ {
				ids = append(ids, uint64(1+w.pick(3)))
				idx = append(idx, uint64(w.pick(2)))
			}
			w.ClaimDeposits(w.anyActor(), ids, idx)
		}},
		{1, func() { w.UpdateTeam(w.anyActor(), w.anyActor()) }},
		{1 + o.BridgeBias, func() {
			qs := []string{"qeth", "qbtc", "dep1", "wd1"}
			qid := hex.EncodeToString(utils.QueryIDFromData(w.QData[qs[w.pick(len(qs))]]))
			ts := fmt.Sprint(w.Time.UnixMilli() - int64(w.pick(20000)))
			if o.Boundary && w.pick(3) == 0 {
				qid, ts = []string{"zz", "", qid[:10]}[w.pick(3)], []string{"-1", "abc", "0", "99999999999999999999"}[w.pick(4)]
			}
			// sometimes the exact timestamp of an existing aggregate
			if a, t, err := w.App.OracleKeeper.GetCurrentAggregateReport(w.Ctx, utils.QueryIDFromData(w.QData["qeth"])); err == nil && a != nil && w.pick(2) == 0 {
				qid, ts = hex.EncodeToString(a.QueryId), fmt.Sprint(t.UnixMilli())
			}
			// ... or of an OLDER aggregate of some query (the first ones included): the snapshot then has a next neighbour
			if w.pick(2) == 0 {
				qn := []string{"qeth", "qbtc", "qtrb", "dep1", "dep2"}[w.pick(5)]
				if a, t, err := w.App.OracleKeeper.GetAggregateByIndex(w.Ctx, utils.QueryIDFromData(w.QData[qn]), uint64(w.pick(3))); err == nil && a != nil {
					qid, ts = hex.EncodeToString(a.QueryId), fmt.Sprint(t.UnixMilli())
				}
			}
			w.RequestAttestations(w.anyActor(), qid, ts)
		}},
		{1, func() {
			spec := registrytypes.GenesisDataSpec()
			spec.ReportBlockWindow = uint64(1 + w.pick(4))
			spec.Registrar = ""
			types := []string{"spotprice", "newtype", "trbbridge"}
			if o.Boundary {
				types = append(types, "SpotPrice", " spotprice", "spotprice ", "\tSpotPrice\n", "TRBBridge ", "newtype ", "")
			}
			if w.pick(2) == 0 {
				spec.AggregationMethod = "weighted-mode"
			}
			w.RegisterSpec(w.anyActor(), types[w.pick(len(types))], spec)
		}},
	}
	if o.ValsetBias > 0 {
		ops = append(ops, op{2 * o.ValsetBias, func() { w.RegisterEVM(w.val()) }})
		ops = append(ops, op{4 * o.ValsetBias, func() { w.SignValset(w.val()) }})
		ops = append(ops, op{4 * o.ValsetBias, func() {
			// shift one validator's power by about 1%..8% of the total bonded stake, either way
			tot, _ := w.App.StakingKeeper.TotalBondedTokens(w.Ctx)
			pct := []int64{1, 2, 4, 5, 6, 8}[w.pick(6)]
			amt := tot.MulRaw(pct).QuoRaw(100).Int64()
			v := w.val()
			if w.pick(2) == 0 {
				w.Delegate(w.Team, v, amt)
			} else {
				a := v.Oper
				w.Undelegate(&a, v, amt)
			}
		}})
	}
	if o.ValStatus && len(w.Vals) > 1 {
		ops = append(ops, op{3, func() {
			v := w.Vals[1+w.pick(len(w.Vals)-1)] // v0 stays bonded (assumption A-1)
			if w.pick(2) == 0 {
				w.ValJail(v)
			} else {
				// released, but not back in the bonded set before the end of this block: messages of the same block
				// meet a validator that is neither bonded nor jailed
				if r := w.ValUnjail(v); r.Ok {
					for _, u := range w.Users {
						w.WithdrawTip(u, v)
					}
					w.Delegate(w.user(), v, w.amount())
				}
			}
		}})
	}
	if o.ValSlash && len(w.Vals) > 1 {
		ops = append(ops, op{2, func() {
			w.ValSlash(w.Vals[w.pick(len(w.Vals))], []int64{1, 5, 5, 50}[w.pick(4)], int64(w.pick(6)))
		}})
	}
	if o.Boundary {
		// privileged messages from non-authority signers (must be rejected)
		ops = append(ops, op{2, func() {
			s := w.anyActor().Addr.String()
			switch w.pick(6) {
			case 0:
				w.MintInit(s)
			// (with the whole range of values governance itself uses, boundary values included: a check that is skipped
			// or satisfied for one particular value shows only there)
			case 1:
				w.UpdateCyclelist(s, [][]string{{"qeth"}, {"qeth", "qbtc", "qtrb"}, {}, {"qsol"}}[w.pick(4)])
			case 2:
				w.UpdateOracleParams(s, []int64{5, 0, 1, 1_000_000, 2_000_000}[w.pick(5)])
			case 3:
				w.UpdateReporterParams(s, uint64(w.pick(5)), []int64{1, 0, 1_000_000, 2_000_000}[w.pick(4)])
			case 4:
				w.UpdateSnapshotLimit(s, []uint64{1, 0, 2, 5, 1000, 1 << 63}[w.pick(6)])
			default:
				spec := registrytypes.GenesisDataSpec()
				spec.ReportBlockWindow = uint64(w.pick(6))
				w.UpdateDataSpec(s, []string{"spotprice", "trbbridge", "SpotPrice", ""}[w.pick(4)], spec)
			}
		}})
	}
	if o.GovOps {
		ops = append(ops, op{2, func() {
			switch w.pick(8) {
			case 0:
				w.MintInit(w.Gov)
			case 1:
				lists := [][]string{{"qeth", "qbtc", "qtrb"}, {"qeth", "qbtc"}, {"qsol"}, {"qeth", "qbtc", "qtrb", "qsol"}, {"qbtc", "qeth"}}
				if o.Boundary && !o.NoBadValues {
					lists = append(lists, []string{}, []string{"garbage-entry"}, []string{"qeth", "garbage-entry"})
				}
				w.UpdateCyclelist(w.Gov, lists[w.pick(len(lists))])
			case 2:
				if o.Boundary && !o.NoBadValues && govBoundary && w.pick(3) == 0 {
					w.UpdateOracleParams(w.Gov, []int64{0, 1, 5, 999_999}[w.pick(4)])
				} else if w.pick(2) == 0 {
					// a minimum that is not a whole number of tokens, and a reporter whose stake lies just below it
					// (same whole-token bucket): it must not be able to report
					min := []int64{1_500_000, 2_300_001, 1_000_001}[w.pick(3)]
					w.UpdateOracleParams(w.Gov, min)
					below := min - 1 - int64(w.pick(300_000))
					// a fresh account, funded by an ordinary transfer from a validator operator
					op := w.Vals[0].Oper
					if w.Bal(op.Addr).GTE(sdkmath.NewInt(1_000_000_000)) {
						u := w.AddActor(fmt.Sprintf("ms%d", len(w.Actors)), 0)
						if w.Send(&op, u, 50_000_000).Ok {
							w.Delegate(u, w.Vals[0], below)
							w.CreateReporter(u, sdkmath.LegacyZeroDec(), 1_000_000)
							w.Submit(u, w.currentCycleQuery(), hex32(uint64(1000+w.pick(5))))
						}
					}
				} else {
					w.UpdateOracleParams(w.Gov, int64(1_000_000*(1+w.pick(3))))
				}
			case 3:
				if o.Boundary && !o.NoBadValues && govBoundary && w.pick(3) == 0 {
					w.UpdateReporterParams(w.Gov, uint64(w.pick(2)), []int64{0, 1, 999_999}[w.pick(3)])
				} else {
					w.UpdateReporterParams(w.Gov, uint64(1+w.pick(4)), int64(1_000_000*(1+w.pick(2))))
				}
			case 4:
				w.UpdateSnapshotLimit(w.Gov, uint64(w.pick(5)))
			case 5:
				// the staking module's validator cap: validators leave (and re-enter) the bonded set by power ranking,
				// without being jailed; unbonding time as short as a second
				if o.ValStatus && govBoundary {
					ub := []time.Duration{time.Second, time.Hour, 21 * 24 * time.Hour, 21 * 24 * time.Hour}[w.pick(4)]
					w.UpdateStakingParams(w.Gov, uint32(1+w.pick(4)), ub)
				} else {
					w.UpdateSnapshotLimit(w.Gov, uint64(1+w.pick(5)))
				}
			default:
				spec := registrytypes.GenesisDataSpec()
				spec.ReportBlockWindow = uint64(1 + w.pick(5))
				w.UpdateDataSpec(w.Gov, "spotprice", spec)
			}
		}})
	}
	tot := 0
	for _, p := range ops {
		tot += p.w
	}
	x := w.pick(tot)
	for _, p := range ops {
		if x < p.w {
			p.f()
			return
		}
		x -= p.w
	}
}

func (w *World) randomSubmit(o HistOpts) {
	reps := w.reporters()
	var a *Actor
	if len(reps) > 0 && w.pick(8) != 0 {
		a = reps[w.pick(len(reps))]
	} else {
		a = w.anyActor()
	}
	switch w.pick(10) {
	case 0, 1, 2, 3, 4:
		w.Submit(a, w.currentCycleQuery(), w.spotValue(o))
	case 5, 6:
		qs := []string{"qeth", "qbtc", "qtrb", "qsol", "qada"}
		w.Submit(a, qs[w.pick(len(qs))], w.spotValue(o))
	case 7, 8:
		w.Submit(a, fmt.Sprintf("dep%d", 1+w.pick(3)), w.depositValue(o))
	default:
		w.Submit(a, fmt.Sprintf("wd%d", 1+w.pick(3)), w.depositValue(o))
	}
}

func (w *World) randomPropose(o HistOpts) {
	if len(w.Reports) == 0 {
		return
	}
	rep := w.Reports[len(w.Reports)-1-w.pick(min(len(w.Reports), 4))]
	tag := "real"
	if o.Boundary && w.pick(4) == 0 {
		// altered or invented report
		switch w.pick(5) {
		case 0:
			rep.Value = hex32(424242)
			tag = "altered-value"
		case 1:
			rep.Power = rep.Power + 1 + uint64(w.pick(5))
			tag = "altered-power-up"
		case 2:
			if rep.Power > 1 {
				rep.Power = 1
			}
			tag = "altered-power-down"
		case 3:
			rep.Timestamp = rep.Timestamp.Add(time.Second)
			tag = "altered-timestamp"
		default:
			rep.BlockNumber += 1000
			tag = "invented"
		}
	}
	cat := disputetypes.DisputeCategory(1 + w.pick(3))
	if o.Fanout {
		cat = disputetypes.Warning // a fee small enough to be paid from the payer's stake
	}
	full := sdkmath.NewIntFromUint64(rep.Power).MulRaw(1_000_000)
	switch cat {
	case disputetypes.Warning:
		full = full.QuoRaw(100)
	case disputetypes.Minor:
		full = full.QuoRaw(20)
	}
	fee := full.Int64()
	switch w.pick(4) {
	case 0:
		fee = fee / 2
	case 1:
		fee = fee/3 + 1
	case 2:
		fee = fee * 2
	}
	if fee < 10_000 {
		fee = 10_000
	}
	w.ProposeDispute(w.anyActor(), rep, cat, fee, w.pick(5) == 0, tag)
}

func min(a, b int) int {
	if a < b {
		return a
	}
	return b
}

func (w *World) gap(o HistOpts) time.Duration {
	d := w.gapMs(o)
	if o.TimeJumps && w.pick(3) == 0 {
		// consensus block times have nanosecond resolution: gaps of k ms plus a sub-millisecond part
		d += time.Duration(w.pick(1_000_000))
	}
	return d
}

func (w *World) gapMs(o HistOpts) time.Duration {
	if !o.TimeJumps {
		return time.Duration(1+w.pick(6)) * time.Second
	}
	switch w.pick(20) {
	case 0:
		return time.Millisecond
	case 1:
		return 12*time.Hour + time.Duration(w.pick(3)-1)*time.Millisecond
	case 2:
		return 24*time.Hour + time.Duration(w.pick(3)-1)*time.Second
	case 3:
		return 48 * time.Hour
	case 4:
		return 72*time.Hour + time.Second
	case 5:
		if w.pick(4) == 0 {
			return 22 * 24 * time.Hour
		}
		return 15 * 24 * time.Hour
	case 6:
		return 13 * time.Hour
	case 7, 8:
		if o.ValsetBias > 0 {
			return []time.Duration{14*24*time.Hour - 2*time.Second, 14*24*time.Hour - time.Second, 14 * 24 * time.Hour, 14*24*time.Hour + time.Second, 7 * 24 * time.Hour}[w.pick(5)]
		}
		return time.Duration(1+w.pick(6)) * time.Second
	default:
		return time.Duration(1+w.pick(6)) * time.Second
	}
}

// block runs one block: begin after gap d, n random ops plus the given scripted ops, end.
func (w *World) block(o HistOpts, d time.Duration, scripted ...func()) bool {
	if w.Halted || !w.Begin(d) {
		return false
	}
	for _, f := range scripted {
		f()
		if !o.Quiet && w.pick(3) == 0 {
			w.RandomOp(o)
		}
	}
	ok := w.End()
	if ok && o.Probe {
		w.Probe()
	}
	return ok
}

// widestReporter: the reporter (other than not) with the most selectors.
func (w *World) widestReporter(not *Actor) *Actor {
	var best *Actor
	bestN := 0
	for _, r := range w.reporters() {
		if r.Name == not.Name {
			continue
		}
		n := 0
		for _, a := range w.Actors {
			if s, err := w.App.ReporterKeeper.Selectors.Get(w.Ctx, a.Addr.Bytes()); err == nil && string(s.Reporter) == string(r.Addr.Bytes()) {
				n++
			}
		}
		if n > bestN {
			best, bestN = r, n
		}
	}
	return best
}

func (w *World) lastDisputeId() uint64 {
	ids := w.disputeIds()
	if len(ids) == 0 {
		return 0
	}
	return ids[len(ids)-1]
}

// DisputeStory drives one dispute through its whole life (the multi-step sequences random
// message choice rarely completes): report, propose (full or partial fee, from balance or bond),
// more fee, votes by some of team / tippers / reporters / selectors / holders, vote end with or
// without quorum, further rounds, execution, refunds and reward claims (each also repeated).
func (w *World) DisputeStory(o HistOpts) {
	reps := w.reporters()
	if len(reps) == 0 {
		return
	}
	r := reps[w.pick(len(reps))]
	sec := time.Second
	// give the reporter more selectors (accounts that never selected anyone), so that several of them can
	// vote before it does
	if w.pick(2) == 0 {
		var joins []func()
		for _, u := range w.Users {
			u := u
			if has, _ := w.App.ReporterKeeper.Selectors.Has(w.Ctx, u.Addr.Bytes()); !has && u.Name != r.Name {
				joins = append(joins, func() { w.Delegate(u, w.val(), int64(1_000_000*(2+w.pick(50)))) }, func() { w.SelectReporter(u, r) })
			}
		}
		if len(joins) > 0 {
			w.block(o, 2*sec, joins...)
		}
	}
	// the reporter reports two queries in the same block (two aggregates determined by reports of one height)
	nrep0 := len(w.Reports)
	second := []string{"qada", "qsol", "qbtc", "qeth"}[w.pick(4)]
	tipper := w.user()
	if !w.block(o, 2*sec, func() { w.Tip(tipper, w.currentCycleQuery(), int64(1_000_000+w.pick(5_000_000))) },
		func() { w.Tip(tipper, second, int64(1_000_000+w.pick(5_000_000))) },
		func() { w.Submit(r, w.currentCycleQuery(), hex32(uint64(1000+w.pick(5)))) },
		// (the backing stake changes between the two reports of this block: each reward is divided by the stake
		// recorded with its own report)
		func() {
			if w.pick(4) != 0 {
				w.Delegate(r, w.val(), int64(1_000_000*(1+w.pick(40))))
			}
		},
		func() { w.Submit(r, second, hex32(uint64(1000+w.pick(5)))) }) {
		return
	}
	if len(w.Reports) == nrep0 {
		return
	}
	rep := w.Reports[nrep0+w.pick(len(w.Reports)-nrep0)]
	w.block(o, 3*sec)
	// between report and dispute a backer takes most of its stake out (the slash must then reach into the
	// unbonding entry)
	if w.pick(2) == 0 {
		backers := []*Actor{r}
		for _, a := range w.Actors {
			if s, err := w.App.ReporterKeeper.Selectors.Get(w.Ctx, a.Addr.Bytes()); err == nil && string(s.Reporter) == string(r.Addr.Bytes()) && a.Name != r.Name {
				backers = append(backers, a)
			}
		}
		b := backers[w.pick(len(backers))]
		dels, _ := w.App.StakingKeeper.GetDelegatorDelegations(w.Ctx, b.Addr, 10)
		var outs, early []func()
		for _, d := range dels {
			va, _ := sdk.ValAddressFromBech32(d.ValidatorAddress)
			v, err := w.App.StakingKeeper.GetValidator(w.Ctx, va)
			if err != nil {
				continue
			}
			tok := v.TokensFromShares(d.Shares).TruncateInt().Int64()
			for _, wv := range w.Vals {
				if wv.ValAddr.String() == d.ValidatorAddress && tok > 1000 {
					wv := wv
					take := tok - tok/int64(50+w.pick(400))
					if k := w.pick(3); k == 0 {
						outs = append(outs, func() { w.Undelegate(b, wv, take) })
					} else if k == 1 {
						// ... in two steps, a small one first (two unbonding entries of different heights: the slash
						// must go through both)
						small := take / int64(3+w.pick(20))
						early = append(early, func() { w.Undelegate(b, wv, small) })
						outs = append(outs, func() { w.Undelegate(b, wv, take-small) })
					} else {
						// ... or moves most of it to another validator: the slash must follow the redelegation for what is missing
						to := w.Vals[(w.pick(len(w.Vals)-1)+1+indexOfVal(w.Vals, wv))%len(w.Vals)]
						outs = append(outs, func() { w.Redelegate(b, wv, to, take) })
					}
				}
			}
		}
		if len(early) > 0 {
			w.block(o, 3*sec, early...)
		}
		w.block(o, 3*sec, outs...)
		// ... and the validators are then punished for an infraction committed before that: the unbonding entries are
		// slashed too and hold less than their initial balance
		if o.ValSlash && len(early) > 0 {
			var sl []func()
			for _, v := range w.Vals {
				v := v
				sl = append(sl, func() { w.ValSlash(v, []int64{5, 50}[w.pick(2)], 8) })
			}
			w.block(o, 3*sec, sl...)
		}
	} else {
		w.block(o, 3*sec)
	}
	cat := disputetypes.DisputeCategory(1 + w.pick(3))
	full := sdkmath.NewIntFromUint64(rep.Power).MulRaw(1_000_000)
	switch cat {
	case disputetypes.Warning:
		full = full.QuoRaw(100)
	case disputetypes.Minor:
		full = full.QuoRaw(20)
	}
	payers := []*Actor{w.anyActor(), w.anyActor(), w.anyActor(), w.user()}
	first := full.Int64()
	partial := w.pick(2) == 0
	if partial {
		first = full.Int64()/2 + 1 + int64(w.pick(1000))
	}
	if first < 10_000 {
		first = 10_000
	}
	fromBond := w.pick(4) == 0
	if o.Fanout {
		// the fee comes from the bond of the reporter with the most selectors (other than the disputed one), in two parts
		if p := w.widestReporter(r); p != nil {
			payers[0] = p
			// ... whose own stake is spread over all validators
			var spread []func()
			for _, v := range w.Vals {
				v := v
				spread = append(spread, func() { w.Delegate(p, v, int64(2_000_000+w.pick(3_000_000))) })
			}
			w.block(o, 2*sec, spread...)
		}
		if !partial {
			partial = true
			first = full.Int64()/2 + 1
		}
		fromBond = true
	}
	if !w.block(o, 2*sec, func() { w.ProposeDispute(payers[0], rep, cat, first, fromBond, "story") }) {
		return
	}
	id := w.lastDisputeId()
	if id == 0 {
		return
	}
	// a reporter jailed for ten minutes by a fully funded minor dispute is disputed again, lightly, for its other report
	// of that block: its jail term must not become shorter
	if cat == disputetypes.Minor && !partial && len(w.Reports)-nrep0 > 1 && w.pick(2) == 0 {
		for _, r2 := range w.Reports[nrep0:] {
			if string(r2.QueryId) != string(rep.QueryId) {
				r2 := r2
				w.block(o, 3*sec, func() { w.ProposeDispute(w.user(), r2, disputetypes.Warning, int64(r2.Power)*10_000, false, "second-lighter") })
				w.block(o, 3*sec, func() { w.Unjail(r) }, func() { w.Submit(r, w.currentCycleQuery(), hex32(1000)) })
				break
			}
		}
		id = w.lastDisputeId()
	}
	if partial {
		branch := w.pick(3)
		if o.Fanout && branch == 0 {
			branch = 1
		}
		switch branch {
		case 0: // never completed: expires after one day
			w.block(o, 24*time.Hour+sec)
			w.block(o, 2*sec, func() { w.WithdrawFeeRefund(payers[0], payers[0], id) }, func() { w.WithdrawFeeRefund(payers[0], payers[0], id) })
			return
		default:
			// the first payer pays a second part from its bond (two stake-paid fees recorded under one dispute)
			if fromBond && (w.pick(2) == 0 || o.Fanout) {
				w.block(o, 3*sec, func() { w.AddFee(payers[0], id, int64(10_000+w.pick(50_000)), true) })
			}
			// a plain selector (not a reporter) pays part of the fee from its bond: only its own stake may go down
			for _, a := range w.Actors {
				if sl, err := w.App.ReporterKeeper.Selectors.Get(w.Ctx, a.Addr.Bytes()); err == nil && string(sl.Reporter) != string(a.Addr.Bytes()) && string(sl.Reporter) != string(r.Addr.Bytes()) {
					a := a
					w.block(o, 3*sec, func() { w.AddFee(a, id, int64(10_000+w.pick(50_000)), true) })
					break
				}
			}
			// funding that stops just short of the full fee (between 95% and 100%): nothing may happen yet
			if w.pick(3) == 0 {
				short := full.Int64() - first - full.Int64()/int64(25+w.pick(60))
				if short > 0 {
					w.block(o, 3*sec, func() { w.AddFee(payers[1], id, short, false) })
				}
			}
			// several payers with amounts that do not divide evenly (sub-unit dust on every refund)
			w.block(o, 3*sec, func() { w.AddFee(payers[1], id, full.Int64()/4+1+int64(w.pick(1000)), w.pick(4) == 0) },
				func() { w.AddFee(payers[2], id, int64(7+w.pick(5000)), false) },
				func() { w.AddFee(payers[3], id, int64(3+w.pick(50)), false) })
			w.block(o, 3*sec, func() { w.AddFee(payers[w.pick(2)], id, full.Int64(), false) })
		}
	}
	rounds := 1 + w.pick(3)
	voters := []*Actor{w.Team, r, w.anyActor(), w.anyActor(), w.user(), w.user()}
	// the reporter's own selectors: a selector voting BEFORE its reporter must be taken out of the reporter's weight,
	// one voting AFTER it is removed from the reporter's recorded weight
	var ordered []*Actor
	for _, a := range w.Actors {
		if s, err := w.App.ReporterKeeper.Selectors.Get(w.Ctx, a.Addr.Bytes()); err == nil && string(s.Reporter) == string(r.Addr.Bytes()) && a.Name != r.Name {
			ordered = append(ordered, a)
		}
	}
	if len(ordered) > 1 && w.pick(2) == 0 {
		// several selectors before their reporter, the rest after
		k := 2 + w.pick(len(ordered)-1)
		seq := append([]*Actor{}, ordered[:k]...)
		seq = append(seq, r)
		seq = append(seq, ordered[k:]...)
		ordered = append(seq, w.Team)
	} else if len(ordered) > 1 {
		ordered = []*Actor{ordered[0], r, ordered[1], w.Team}
	} else if len(ordered) == 1 {
		ordered = []*Actor{ordered[0], r, w.Team}
	}
	for round := 1; round <= rounds && !w.Halted; round++ {
		id = w.lastDisputeId()
		nv := w.pick(len(voters) + 1)
		if round < rounds && nv > 2 {
			nv = w.pick(2) // keep it below quorum so that another round is possible
		}
		var votes []func()
		useOrdered := len(ordered) > 0 && w.pick(2) == 0
		if useOrdered && round == rounds && nv < len(ordered) {
			nv = len(ordered)
		}
		if round == rounds && w.pick(3) == 0 {
			// landslide: team, the tipper and every reporter vote the same way (quorum in the first stage)
			ch := disputetypes.VoteEnum(w.pick(3))
			for _, v := range append([]*Actor{w.Team, tipper}, w.reporters()...) {
				v := v
				votes = append(votes, func() { w.Vote(v, id, ch) })
			}
			nv = 0
		}
		for i := 0; i < nv; i++ {
			v := voters[w.pick(len(voters))]
			if useOrdered && i < len(ordered) {
				v = ordered[i]
			}
			ch := disputetypes.VoteEnum(w.pick(3))
			votes = append(votes, func() { w.Vote(v, id, ch) })
		}
		w.block(o, 5*sec, votes...)
		// a round decided by quorum executes in the next block, long before the dispute's end time: messages that
		// are still inside the dispute's time window then meet an executed dispute
		if w.pick(2) == 0 {
			w.block(o, 2*sec)
			late := payers[w.pick(len(payers))]
			w.block(o, 2*sec, func() { w.AddFee(late, id, full.Int64()*2, false) }, func() { w.Vote(w.anyActor(), id, disputetypes.VoteEnum(w.pick(3))) },
				func() { w.ProposeDispute(late, rep, cat, full.Int64()*2, false, "story-after-exec") })
		}
		w.block(o, 48*time.Hour+time.Duration(w.pick(3))*sec) // vote period ends: tally in BeginBlock
		if round < rounds {
			// between the rounds tips and stakes move on: weights stay those of the dispute's (first round's) block
			w.block(o, time.Minute, func() { w.Tip(tipper, w.currentCycleQuery(), int64(1_000_000+w.pick(50_000_000))) },
				func() { w.Tip(w.user(), w.currentCycleQuery(), int64(1_000_000+w.pick(5_000_000))) },
				func() { w.Delegate(r, w.val(), int64(1_000_000*(1+w.pick(40)))) })
			p := payers[w.pick(len(payers))]
			w.block(o, time.Hour, func() { w.ProposeDispute(p, rep, cat, full.Int64()*2, w.pick(5) == 0, "story-round") })
			if w.lastDisputeId() == id {
				break
			}
		}
	}
	w.block(o, 72*time.Hour+sec) // dispute end passed: execution in BeginBlock
	w.block(o, 2*sec)
	// claims, each possibly twice, in random order; all round ids of the family are tried
	ids := w.disputeIds()
	var claims []func()
	for _, did := range ids {
		did := did
		for _, p := range append(payers, r) {
			p := p
			claims = append(claims, func() { w.WithdrawFeeRefund(w.anyActor(), p, did) })
		}
		for _, v := range voters {
			v := v
			claims = append(claims, func() { w.ClaimReward(v, did) })
		}
	}
	w.Rng.Shuffle(len(claims), func(i, j int) { claims[i], claims[j] = claims[j], claims[i] })
	for len(claims) > 0 && !w.Halted {
		n := 6
		if n > len(claims) {
			n = len(claims)
		}
		w.block(o, 3*sec, claims[:n]...)
		claims = claims[n:]
	}
	// every voter claims once more on the final round's id (a second claim must not pay again, whichever round the voter
	// voted in)
	final := w.lastDisputeId()
	var again []func()
	for _, v := range voters {
		v := v
		again = append(again, func() { w.ClaimReward(v, final) })
	}
	w.Rng.Shuffle(len(again), func(i, j int) { again[i], again[j] = again[j], again[i] })
	w.block(o, 3*sec, again...)
	if w.pick(2) == 0 {
		w.block(o, 2*sec, func() { w.WithdrawFeeRefund(payers[0], payers[0], id) }, func() { w.ClaimReward(w.Team, id) }, func() { w.Unjail(r) })
	}
}

// LongDepositStory: an UNTIPPED bridge deposit report opens a round with the fixed 2000-block window.  The story really
// runs those blocks (empty) and reports again at the last block of the window, in the block after the round has
// aggregated (a fresh round), and - for a tipped deposit whose short window ran out without a report - after expiry
// (same round re-opened): the re-opening branches of the deposit path.
func (w *World) LongDepositStory(o HistOpts, ops []*Actor) {
	sec := time.Second
	id := uint64(1 + w.pick(8))
	dep := fmt.Sprintf("dep%d", id)
	val := DepositValue(w.user().Addr.String(), new(big.Int).Mul(big.NewInt(int64(1+w.pick(5000))), big.NewInt(1e12)), big.NewInt(0))
	if !w.block(o, 2*sec, func() { w.Submit(ops[0], dep, val) }) {
		return
	}
	qid := utils.QueryIDFromData(w.QData[dep])
	q, err := w.App.OracleKeeper.CurrentQuery(w.Ctx, qid)
	if err != nil {
		return
	}
	left := int(int64(q.Expiration) - w.Height - 1)
	if left < 0 || left > 2100 {
		return
	}
	if !w.EmptyBlocks(left, 2*sec) {
		return
	}
	// last block of the window: still accepted; the round aggregates in this block
	// (several reporters in that block: the first re-opens the query under a new id, the others must land in that
	// same new round)
	w.block(o, 2*sec, func() { w.Submit(ops[1%len(ops)], dep, val) }, func() { w.Submit(ops[2%len(ops)], dep, val) }, func() { w.Submit(ops[0], dep, val) })
	// the block after: no round any more - a fresh one is opened
	w.block(o, 2*sec, func() { w.Submit(ops[0], dep, val) })
	// a tipped deposit round (short window from the registry) that nobody reports in time, reported after expiry
	id2 := uint64(1 + w.pick(8))
	if id2 != id {
		dep2 := fmt.Sprintf("dep%d", id2)
		w.block(o, 2*sec, func() { w.Tip(w.user(), dep2, 1_000_000) })
		w.EmptyBlocks(4, 2*sec)
		w.block(o, 2*sec, func() { w.Submit(ops[0], dep2, val) })
		w.EmptyBlocks(4, 2*sec)
	}
}

// BridgeStory: deposits reported (power around the 2/3 threshold), claimed around the 12 h age boundary,
// repeated and batched claims, flagging by dispute before/after, and withdrawals.
func (w *World) BridgeStory(o HistOpts) {
	sec := time.Second
	// a short window for bridge deposit rounds opened by a tip (governance spec update)
	if spec, err := w.App.RegistryKeeper.GetSpec(w.Ctx, "trbbridge"); err == nil && spec.ReportBlockWindow > 5 {
		spec.ReportBlockWindow = uint64(1 + w.pick(3))
		w.block(o, 2*sec, func() { w.UpdateDataSpec(w.Gov, "trbbridge", spec) })
	}
	// validator operators as reporters: powers 4000 / 2000 / 1000 around the 2/3 threshold of 7000
	var ops []*Actor
	for _, v := range w.Vals {
		a := v.Oper
		ops = append(ops, &a)
	}
	var setup []func()
	for _, a := range ops {
		a := a
		setup = append(setup, func() { w.CreateReporter(a, sdkmath.LegacyZeroDec(), 1_000_000) })
	}
	w.block(o, 2*sec, setup...)
	if w.pick(25) == 0 {
		w.LongDepositStory(o, ops)
	}
	id := w.NextDep
	w.NextDep++
	if id > 8 {
		id = uint64(1 + w.pick(8))
	}
	dep := fmt.Sprintf("dep%d", id)
	rcpt := w.user()
	amt := new(big.Int).Mul(big.NewInt(int64(1+w.pick(5000))), big.NewInt(1e12))
	tip := new(big.Int).Mul(big.NewInt(int64(w.pick(3))), big.NewInt(1e12))
	switch w.pick(8) {
	case 0:
		tip = new(big.Int).Set(amt) // the whole deposit is the claimer's tip, nothing is left for the recipient
	case 1:
		tip = new(big.Int).Add(amt, big.NewInt(1e12)) // a tip above the amount: the deposit cannot be claimed
	}
	val := DepositValue(rcpt.Addr.String(), amt, tip)
	if o.Boundary && w.pick(4) == 0 {
		val = w.depositValue(o)
	}
	// which operators report: subsets with power below / at / above the threshold
	subsets := [][]int{{0}, {0, 1}, {0, 1, 2}, {1, 2}, {0, 2}, {0, 1}, {0, 1, 2}, {0, 1}, {0, 1, 2}, {0, 1, 2}}
	sub := subsets[w.pick(len(subsets))]
	var reps []func()
	reps = append(reps, func() { w.Tip(w.user(), dep, int64(1_000_000+w.pick(2_000_000))) })
	for _, i := range sub {
		if i < len(ops) {
			a := ops[i]
			reps = append(reps, func() { w.Submit(a, dep, val) })
		}
	}
	// optionally a second deposit tipped and reported in the same block by an overlapping set of operators: both
	// rounds close in one block and the time-based reward of that block pays two aggregates that share reporters
	if w.pick(2) == 0 {
		id2 := uint64(1 + w.pick(8))
		if id2 != id {
			dep2 := fmt.Sprintf("dep%d", id2)
			val2 := DepositValue(w.user().Addr.String(), new(big.Int).Mul(big.NewInt(int64(1+w.pick(5000))), big.NewInt(1e12)), big.NewInt(0))
			reps = append(reps, func() { w.Tip(w.user(), dep2, int64(1_000_000+w.pick(2_000_000))) })
			for _, i := range subsets[w.pick(len(subsets))] {
				if i < len(ops) {
					a := ops[i]
					reps = append(reps, func() { w.Submit(a, dep2, val2) })
				}
			}
		}
	}
	w.block(o, 2*sec, reps...)
	// optionally a third deposit reported ONE BLOCK LATER by the same operators, after their stake has changed, in a
	// window shortened by one block (governance): it closes in the same block as the first, so one reward payout covers
	// two aggregates in which the same reporters appear with different powers
	if spec, err := w.App.RegistryKeeper.GetSpec(w.Ctx, "trbbridge"); err == nil && spec.ReportBlockWindow >= 2 && w.pick(2) == 0 {
		id3 := uint64(1 + w.pick(8))
		if id3 != id {
			dep3 := fmt.Sprintf("dep%d", id3)
			val3 := DepositValue(w.user().Addr.String(), new(big.Int).Mul(big.NewInt(int64(1+w.pick(5000))), big.NewInt(1e12)), big.NewInt(0))
			spec.ReportBlockWindow--
			late := []func(){func() { w.UpdateDataSpec(w.Gov, "trbbridge", spec) }, func() { w.Tip(w.user(), dep3, int64(1_000_000+w.pick(2_000_000))) }}
			for k, i := range sub {
				if i < len(ops) {
					a, v := ops[i], w.Vals[i]
					amt := int64(1_000_000 * (50 + 400*k + w.pick(300)))
					late = append(late, func() { w.Delegate(a, v, amt) }, func() { w.Submit(a, dep3, val3) })
				}
			}
			w.block(o, 2*sec, late...)
			spec.ReportBlockWindow++
			w.block(o, 2*sec, func() { w.UpdateDataSpec(w.Gov, "trbbridge", spec) })
		}
	}
	// the last block of the deposit round's window gets one more report (the round closes in that very block)
	lateDone := false
	for i := 0; i < 5; i++ {
		if qm, err := w.App.OracleKeeper.CurrentQuery(w.Ctx, utils.QueryIDFromData(w.QData[dep])); err == nil && !lateDone && int64(qm.Expiration) == w.Height+1 && w.pick(2) == 0 {
			lateDone = true
			a := ops[w.pick(len(ops))]
			w.block(o, 2*sec, func() { w.Submit(a, dep, val) })
			continue
		}
		w.block(o, 2*sec)
	}
	// optionally a second round for the same deposit (a second aggregate, index 1)
	if w.pick(2) == 0 {
		sub2 := subsets[w.pick(len(subsets))]
		var reps2 []func()
		reps2 = append(reps2, func() { w.Tip(w.user(), dep, int64(1_000_000+w.pick(2_000_000))) })
		for _, i := range sub2 {
			if i < len(ops) {
				a := ops[i]
				reps2 = append(reps2, func() { w.Submit(a, dep, val) })
			}
		}
		w.block(o, 2*sec, reps2...)
		for i := 0; i < 5; i++ {
			w.block(o, 2*sec)
		}
	}
	// optionally the validator set's power shifts by more than 5% between report and claim (new checkpoint,
	// new threshold): the threshold that counts is the one in force at report time
	if w.pick(2) == 0 {
		if w.pick(2) == 0 {
			w.block(o, 2*sec, func() { w.Delegate(w.user(), w.Vals[2], 3_000_000_000) })
		} else {
			w.block(o, 2*sec, func() { w.Undelegate(ops[0], w.Vals[0], 2_500_000_000) })
		}
		w.block(o, 2*sec)
	}
	claimer := w.user()
	if w.pick(2) == 0 {
		claimer = rcpt // the recipient claims its own deposit (tip and amount go to the same account)
	}
	qid := utils.QueryIDFromData(w.QData[dep])
	idx := uint64(0)
	if _, _, err := w.App.OracleKeeper.GetAggregateByIndex(w.Ctx, qid, 1); err == nil && w.pick(2) == 0 {
		idx = 1
	}
	w.block(o, 2*sec, func() { w.ClaimDeposits(claimer, []uint64{id}, []uint64{idx}) }) // too young
	if w.pick(4) == 0 && len(w.Reports) > 0 {
		// dispute the deposit report: flags the aggregate
		rep := w.Reports[len(w.Reports)-1]
		w.block(o, 2*sec, func() { w.ProposeDispute(w.user(), rep, disputetypes.Warning, int64(rep.Power)*10_000, false, "bridge-story") })
	}
	// claim at an exact age of the aggregate: 12h-1ms, 12h, 12h+1ms, 13h
	gap := 13 * time.Hour
	if _, ts, err := w.App.OracleKeeper.GetAggregateByIndex(w.Ctx, qid, idx); err == nil {
		ages := []time.Duration{12*time.Hour - time.Millisecond, 12 * time.Hour, 12*time.Hour + time.Millisecond, 13 * time.Hour}
		gap = ts.Add(ages[w.pick(len(ages))]).Sub(w.Time)
		if gap < time.Millisecond {
			gap = time.Millisecond
		}
	}
	other := 1 - idx
	w.block(o, gap, func() { w.ClaimDeposits(claimer, []uint64{id}, []uint64{idx}) })
	w.block(o, 2*time.Millisecond, func() { w.ClaimDeposits(claimer, []uint64{id}, []uint64{idx}) })
	w.block(o, 20*sec, func() { w.ClaimDeposits(w.user(), []uint64{id, id}, []uint64{idx, idx}) }, func() { w.ClaimDeposits(w.user(), []uint64{id}, []uint64{idx}) })
	w.block(o, time.Hour, func() { w.ClaimDeposits(claimer, []uint64{id}, []uint64{other}) }, func() { w.ClaimDeposits(claimer, []uint64{id, uint64(1 + w.pick(8))}, []uint64{idx, 0}) })
	// withdrawals
	for i := 0; i < 1+w.pick(3); i++ {
		a := w.anyActor()
		rc := fmt.Sprintf("%040x", 0xbb00+w.pick(1000))
		if w.pick(5) == 0 {
			rc = "0x" + rc
		}
		w.block(o, 2*sec, func() { w.WithdrawTokens(a, rc, w.amount()) }, func() { w.Submit(ops[0], fmt.Sprintf("wd%d", 1+w.pick(5)), val) })
	}
}

func indexOfVal(vs []*Val, v *Val) int {
	for i, x := range vs {
		if x == v {
			return i
		}
	}
	return 0
}

// CapStory (needs five validators): governance lowers the validator cap to three, so that only the three strongest
// validators stay bonded; a selector then holds more delegations than the cap - with the strongest and the third bonded
// validator and with the two that left the set - and none with the second strongest.  Its reporter's power must count
// both bonded delegations.
func (w *World) CapStory(o HistOpts) {
	if len(w.Vals) < 5 {
		return
	}
	sec := time.Second
	n := len(w.Actors)
	if w.Bal(w.Vals[0].Oper.Addr).LT(sdkmath.NewInt(1_000_000_000)) {
		return
	}
	s := w.AddActor(fmt.Sprintf("cs%d", n), 400_000_000)
	p, err := w.App.StakingKeeper.GetParams(w.Ctx)
	if err != nil {
		return
	}
	w.block(o, 2*sec, func() { w.UpdateStakingParams(w.Gov, 3, p.UnbondingTime) })
	w.block(o, 2*sec)
	w.block(o, 2*sec, func() { w.Delegate(s, w.Vals[0], 40_000_000+int64(w.pick(999))) }, func() { w.Delegate(s, w.Vals[2], 20_000_000+int64(w.pick(999))) },
		func() { w.Delegate(s, w.Vals[3], 10_000_000) }, func() { w.Delegate(s, w.Vals[4], 5_000_000) }, func() { w.CreateReporter(s, sdkmath.LegacyZeroDec(), 1_000_000) })
	for i := 0; i < 3; i++ {
		q := w.currentCycleQuery()
		w.block(o, 2*sec, func() { w.Tip(w.user(), q, 1_000_000) }, func() { w.Submit(s, q, hex32(uint64(1000+w.pick(5)))) })
	}
	w.block(o, 2*sec, func() { w.UpdateStakingParams(w.Gov, p.MaxValidators, p.UnbondingTime) })
}

// RemovalStory: the only way out of a selection other than switching.  Governance lowers the selector cap below a
// reporter's current number of selectors, one of them lets its bonded stake fall below the reporter's minimum and is
// removed by a third party (RemoveSelector); it then reports with what it still has, as its own reporter or through
// another one, shortly after its stake was counted in its former reporter's report.
func (w *World) RemovalStory(o HistOpts) {
	sec := time.Second
	n := len(w.Actors)
	if w.Bal(w.Vals[0].Oper.Addr).LT(sdkmath.NewInt(1_000_000_000)) {
		return
	}
	b := w.AddActor(fmt.Sprintf("rb%d", n), 300_000_000)
	a := w.AddActor(fmt.Sprintf("ra%d", n), 300_000_000)
	c := w.AddActor(fmt.Sprintf("rc%d", n), 300_000_000)
	v := w.Vals[0]
	w.block(o, 2*sec, func() { w.Delegate(b, v, 200_000_000) }, func() { w.CreateReporter(b, sdkmath.LegacyZeroDec(), 100_000_000) })
	w.block(o, 2*sec, func() { w.Delegate(a, v, 150_000_000) }, func() { w.SelectReporter(a, b) },
		func() { w.Delegate(c, v, 150_000_000) }, func() { w.SelectReporter(c, b) })
	q := w.currentCycleQuery()
	w.block(o, 2*sec, func() { w.Tip(c, q, 1_000_000) }, func() { w.Submit(b, q, hex32(uint64(1000+w.pick(5)))) })
	p, err := w.App.ReporterKeeper.Params.Get(w.Ctx)
	if err != nil {
		return
	}
	w.block(o, 2*sec, func() { w.UpdateReporterParams(w.Gov, 2, p.MinTrb.Int64()) })
	// c's stake is split: a jailed validator holds a little of it, a bonded one enough to meet the reporter's minimum:
	// nobody may remove c
	if len(w.Vals) > 1 {
		jv := w.Vals[1+w.pick(len(w.Vals)-1)]
		w.block(o, 2*sec, func() { w.Delegate(c, jv, 5_000_000) }, func() { w.ValJail(jv) })
		w.block(o, 2*sec, func() { w.RemoveSelector(a, c) }, func() { w.RemoveSelector(b, c) })
	}
	w.block(o, 2*sec, func() { w.Undelegate(a, v, 100_000_000) })
	w.block(o, 2*sec, func() { w.RemoveSelector(c, a) })
	if w.pick(2) == 0 {
		w.block(o, 2*sec, func() { w.CreateReporter(a, sdkmath.LegacyZeroDec(), 1_000_000) })
	} else {
		w.block(o, 2*sec, func() { w.CreateReporter(c, sdkmath.LegacyZeroDec(), 1_000_000) }) // fails: c is a selector
		reps := w.reporters()
		if len(reps) == 0 {
			return
		}
		w.block(o, 2*sec, func() { w.SelectReporter(a, reps[w.pick(len(reps))]) })
	}
	q2 := w.currentCycleQuery()
	var subs []func()
	subs = append(subs, func() { w.Tip(c, q2, 1_000_000) })
	for _, r := range append(w.reporters(), a) {
		r := r
		subs = append(subs, func() { w.Submit(r, q2, hex32(uint64(1000+w.pick(5)))) })
	}
	w.block(o, 2*sec, subs...)
	w.block(o, 2*sec, func() { w.UpdateReporterParams(w.Gov, p.MaxSelectors, p.MinTrb.Int64()) })
}

// SelectorStory: a selector's stake follows it through reporters: A reports with it, the selector
// switches to B and then to C (B may or may not have reported), C reports; unjail attempts around.
func (w *World) SelectorStory(o HistOpts) {
	reps := w.reporters()
	if len(reps) < 2 {
		// make more reporters out of users that are not selectors yet
		for _, u := range w.Users {
			w.block(o, 2*time.Second, func() { w.Delegate(u, w.val(), 5_000_000) }, func() { w.CreateReporter(u, sdkmath.LegacyZeroDec(), 1_000_000) })
			if len(w.reporters()) >= 3 {
				break
			}
		}
		reps = w.reporters()
	}
	if len(reps) < 2 {
		return
	}
	var sel *Actor
	for _, u := range w.Actors {
		if s, err := w.App.ReporterKeeper.Selectors.Get(w.Ctx, u.Addr.Bytes()); err == nil && string(s.Reporter) != string(u.Addr.Bytes()) {
			sel = u
			break
		}
	}
	if sel == nil {
		cand := w.AddActor(fmt.Sprintf("s%d", len(w.Actors)), 2_000_000_000)
		sel = cand
		w.block(o, 2*time.Second, func() { w.Delegate(sel, w.val(), int64(50_000_000+w.pick(50_000_000))) }, func() { w.SelectReporter(sel, reps[0]) })
	}
	s0, err := w.App.ReporterKeeper.Selectors.Get(w.Ctx, sel.Addr.Bytes())
	if err != nil {
		return
	}
	var cur *Actor
	var others []*Actor
	for _, r := range reps {
		if string(r.Addr.Bytes()) == string(s0.Reporter) {
			cur = r
		} else {
			others = append(others, r)
		}
	}
	if cur == nil || len(others) == 0 {
		return
	}
	q := func() string { return w.currentCycleQuery() }
	w.block(o, 2*time.Second, func() { w.Submit(cur, q(), hex32(1000)) })
	b := others[0]
	w.block(o, 3*time.Second, func() { w.SwitchReporter(sel, b) })
	if w.pick(2) == 0 {
		w.block(o, 2*time.Second, func() { w.Submit(b, q(), hex32(1001)) })
	}
	c := cur
	if len(others) > 1 {
		c = others[1]
	}
	w.block(o, 3*time.Second, func() { w.SwitchReporter(sel, c) })
	// while its lock runs the selector opens a delegation with a validator it had none with (a new staking record is
	// created, the selection must keep its lock)
	if w.pick(2) == 0 {
		for _, v := range w.Vals {
			if _, err := w.App.StakingKeeper.GetDelegation(w.Ctx, sel.Addr, v.ValAddr); err != nil {
				v := v
				w.block(o, 2*time.Second, func() { w.Delegate(sel, v, int64(1_000_000+w.pick(4_000_000))) })
				break
			}
		}
	}
	w.block(o, 2*time.Second, func() { w.Submit(c, q(), hex32(1002)) })
	w.block(o, 2*time.Second, func() { w.Submit(c, q(), hex32(1003)) }, func() { w.Submit(cur, q(), hex32(1003)) })
	if w.pick(2) == 0 {
		w.block(o, 22*24*time.Hour)
		w.block(o, 2*time.Second, func() { w.Submit(c, q(), hex32(1004)) })
	}
}

// TieDisputeStory (equal reporters, right after the bootstrap): a dispute on which two accounts with exactly equal stake
// and balance vote in opposite directions and nobody else votes: the tally after the voting period is an exact tie,
// whose outcome must be the same on every node.
func (w *World) TieDisputeStory(o HistOpts) {
	sec := time.Second
	if len(w.Users) < 5 {
		return
	}
	q := w.currentCycleQuery()
	n0 := len(w.Reports)
	w.block(HistOpts{Quiet: true}, 2*sec, func() { w.Submit(w.Users[0], q, hex32(77)) })
	if len(w.Reports) == n0 {
		return
	}
	rep := w.Reports[n0]
	full := sdkmath.NewIntFromUint64(rep.Power).MulRaw(10_000) // warning: 1% of power * 10^6
	w.block(HistOpts{Quiet: true}, 2*sec, func() { w.ProposeDispute(w.Users[1], rep, disputetypes.Warning, full.Int64(), false, "tie") })
	id := w.lastDisputeId()
	if id == 0 {
		return
	}
	w.block(HistOpts{Quiet: true}, 2*sec, func() { w.Vote(w.Users[2], id, disputetypes.VoteEnum_VOTE_SUPPORT) }, func() { w.Vote(w.Users[3], id, disputetypes.VoteEnum_VOTE_AGAINST) })
	w.block(HistOpts{Quiet: true}, 48*time.Hour+sec)
	w.block(HistOpts{Quiet: true}, 25*time.Hour)
	w.block(HistOpts{Quiet: true}, 2*sec, func() { w.ClaimReward(w.Users[2], id) }, func() { w.ClaimReward(w.Users[3], id) }, func() { w.WithdrawFeeRefund(w.Users[1], w.Users[1], id) })
}

// RunHistory = bootstrap + Blocks random blocks (+ dispute stories).
func (w *World) RunHistory(o HistOpts) {
	w.Bootstrap(o)
	if o.TieBias {
		w.TieDisputeStory(o)
	}
	if o.Fanout {
		w.DisputeStory(o)
	}
	storyAt := -1
	if o.Stories > 0 && w.pick(100) < o.Stories {
		storyAt = 2 + w.pick(o.Blocks/2+1)
	}
	for b := 0; b < o.Blocks && !w.Halted; b++ {
		if b == storyAt && o.BridgeBias > 0 && w.pick(3) != 0 {
			w.BridgeStory(o)
			storyAt = b + 2 + w.pick(6)
			continue
		}
		if b == storyAt && w.pick(3) == 0 {
			if o.GovOps && len(w.Vals) >= 5 && w.pick(3) == 0 {
				w.CapStory(o)
			} else if o.GovOps && w.pick(2) == 0 {
				w.RemovalStory(o)
			} else {
				w.SelectorStory(o)
			}
			continue
		}
		if b == storyAt {
			w.DisputeStory(o)
			if w.pick(3) == 0 {
				storyAt = b + 3 + w.pick(8)
			}
			continue
		}
		if !w.Begin(w.gap(o)) {
			break
		}
		n := w.pick(o.MaxOpsPerBlk + 1)
		for i := 0; i < n; i++ {
			w.RandomOp(o)
		}
		if !w.End() {
			break
		}
		if o.Probe {
			w.Probe()
		}
	}
}

var _ = stakingtypes.Bonded
var _ = oracletypes.ModuleName
