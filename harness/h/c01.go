package h

import (
	"crypto/sha256"
	"encoding/hex"
	"fmt"
	"runtime"
	"sort"
	"strings"
)

type blockObs struct {
	H       int64
	AppHash string
	EvHash  string
	Aggs    string
	OkBegin bool
	OkEnd   bool
}

// RunC01 executes every generated history K times on fresh production apps, varying what must not
// matter (GOMAXPROCS, IAVL cache size, home directory, wall-clock), and records per block the app
// hash (digest over every store key/value), a digest of the emitted events and the aggregates created.
func RunC01(tracePath, statsPath string, seed int64, nHist, K int, o HistOpts) error {
	tr, err := NewTrace(tracePath)
	if err != nil {
		return err
	}
	blocks, ties := 0, 0
	var samples []any
	for hi := 0; hi < nHist; hi++ {
		obs := make([][]blockObs, K)
		for k := 0; k < K; k++ {
			prev := runtime.GOMAXPROCS(0)
			if k%2 == 1 {
				runtime.GOMAXPROCS(1)
			}
			wo := WorldOpts{}
			wo.Chain.IAVLCache = []int{0, 10, 781250, 100}[k%4]
			sink, _ := NewTrace("/dev/null")
			w, err := NewWorld(seed*1_000_003+int64(hi), sink, hi+1, wo)
			if err != nil {
				return err
			}
			oo := o
			if hi%2 == 1 {
				oo.TieBias = true
			}
			if hi%4 == 2 {
				oo.Fanout = true
			}
			w.Extra = func(w *World, rec Rec) {
				if rec["ev"] == "EndBlock" {
					ev := sha256.New()
					for _, e := range w.Ctx.EventManager().Events() {
						ev.Write([]byte(e.Type))
						for _, a := range e.Attributes {
							ev.Write([]byte(a.Key + "=" + a.Value + ";"))
						}
					}
					var ag []string
					for _, a := range w.App.OracleKeeper.GetAggregatedReportsByHeight(w.Ctx, uint64(w.Height)) {
						ag = append(ag, fmt.Sprintf("%s:%s:%d:%s", w.QN(a.QueryId), a.AggregateValue, a.ReporterPower, w.Name(a.AggregateReporter)))
					}
					sort.Strings(ag)
					ok, _ := rec["ok"].(bool)
					obs[k] = append(obs[k], blockObs{H: w.Height, AppHash: hex.EncodeToString(w.LastAppHash), EvHash: hex.EncodeToString(ev.Sum(nil))[:16], Aggs: strings.Join(ag, "|"), OkEnd: ok, OkBegin: true})
				}
			}
			w.RunHistory(oo)
			w.Close()
			sink.Close()
			runtime.GOMAXPROCS(prev)
		}
		// interleave: for each block index, one line per replica
		maxb := 0
		for k := 0; k < K; k++ {
			if len(obs[k]) > maxb {
				maxb = len(obs[k])
			}
		}
		for b := 0; b < maxb; b++ {
			for k := 0; k < K; k++ {
				rec := Rec{"ev": "Block", "hist": hi + 1, "k": k + 1, "b": b + 1, "present": b < len(obs[k])}
				if b < len(obs[k]) {
					ob := obs[k][b]
					rec["h"] = ob.H
					rec["apphash"] = ob.AppHash
					rec["evhash"] = ob.EvHash
					rec["aggs"] = ob.Aggs
					rec["ok"] = ob.OkEnd
					if k == 0 && (strings.Contains(ob.Aggs, "dep") || strings.Contains(ob.Aggs, "qmode")) {
						ties++
					}
				}
				tr.Emit(rec)
				if len(samples) < 3 && b == 5 && k < 2 {
					samples = append(samples, rec)
				}
			}
			blocks++
		}
	}
	st := map[string]any{"histories": nHist, "replicas": K, "blocks": blocks, "blocks_with_deposit_aggregates": ties, "lines": tr.N, "samples": samples}
	if err := tr.Close(); err != nil {
		return err
	}
	return WriteJSON(statsPath, st)
}
