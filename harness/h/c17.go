package h

import (
	"bufio"
	"bytes"
	"crypto/sha256"
	"encoding/hex"
	"encoding/json"
	"fmt"
	"math/rand"
	"os"
	"sort"
	"strings"
	"time"

	abci "github.com/cometbft/cometbft/abci/types"
	cmtproto "github.com/cometbft/cometbft/proto/tendermint/types"
	"github.com/cosmos/gogoproto/proto"
	protoio "github.com/cosmos/gogoproto/io"
	"github.com/ethereum/go-ethereum/crypto"
	"github.com/tellor-io/layer/app"
	bridgetypes "github.com/tellor-io/layer/x/bridge/types"

	"cosmossdk.io/core/comet"
	"cosmossdk.io/core/header"
	"cosmossdk.io/log"

	"github.com/cosmos/cosmos-sdk/crypto/keys/secp256k1"
	sdk "github.com/cosmos/cosmos-sdk/types"
	stakingtypes "github.com/cosmos/cosmos-sdk/x/staking/types"
)

// --- minimal comet.BlockInfo carrying the last commit (what baseapp puts into the context) ---
type cVal struct {
	addr []byte
	pow  int64
}

func (v cVal) Address() []byte { return v.addr }
func (v cVal) Power() int64    { return v.pow }

type cVote struct {
	v    cVal
	flag comet.BlockIDFlag
}

func (v cVote) Validator() comet.Validator         { return v.v }
func (v cVote) GetBlockIDFlag() comet.BlockIDFlag { return v.flag }

type cVotes []cVote

func (v cVotes) Len() int                { return len(v) }
func (v cVotes) Get(i int) comet.VoteInfo { return v[i] }

type cCommit struct {
	round int32
	votes cVotes
}

func (c cCommit) Round() int32           { return c.round }
func (c cCommit) Votes() comet.VoteInfos { return c.votes }

type cEv struct{}

func (cEv) Len() int               { return 0 }
func (cEv) Get(int) comet.Evidence { return nil }

type cBlock struct{ lc cCommit }

func (b cBlock) GetEvidence() comet.EvidenceList { return cEv{} }
func (b cBlock) GetValidatorsHash() []byte       { return nil }
func (b cBlock) GetProposerAddress() []byte      { return nil }
func (b cBlock) GetLastCommit() comet.CommitInfo { return b.lc }

type c17Vote struct {
	Val   string `json:"val"`
	Flag  string `json:"flag"`
	Shape string `json:"shape"`
}

// RunC17 materialises each abstract extended commit (TLC-enumerated: per validator a block-id flag and a
// vote-extension shape) as a real ExtendedCommitInfo signed with the validators' consensus keys and runs the
// real VerifyVoteExtension / PrepareProposal / ProcessProposal / PreBlocker handlers on the same state,
// each under recover; it then mutates every injected list (change / drop / add / reorder an element) and
// records ProcessProposal's verdict.
func RunC17(casesPath, tracePath, statsPath string, seed int64, allReg bool) error {
	rng := rand.New(rand.NewSource(seed))
	c, err := NewChain(ChainOpts{NumVals: 3, ValTokens: []int64{4_000_000_000, 2_000_000_000, 1_000_000_000}, NumActors: 2, RegisterEVM: true, RegisterOnlyFirst: !allReg, VoteExtEnable: 1})
	if err != nil {
		return err
	}
	defer c.Close()
	// EVM keys of the validators
	evmKeys := map[string]*secp256k1.PrivKey{}
	evmAddr := map[string][]byte{}
	for _, v := range c.Vals {
		k := secp256k1.GenPrivKeyFromSecret([]byte("verif-evm-" + v.Name))
		evmKeys[v.Name] = k
		pub, _ := crypto.DecompressPubkey(k.PubKey().Bytes())
		a := crypto.PubkeyToAddress(*pub)
		evmAddr[v.Name] = a.Bytes()
	}
	// v0 registers its real EVM address (overwrite the placeholder), then two checkpoints exist after a power shift.
	// allReg: all three validators are registered from the start and the power shift makes v2 overtake v1, so that the
	// previous and the current checkpoint order the validators differently (signature slots follow the PREVIOUS set)
	for _, v := range c.Vals {
		if v.Name == "v0" || allReg {
			if err := c.App.BridgeKeeper.SetEVMAddressByOperator(c.Ctx, v.ValAddr.String(), evmAddr[v.Name]); err != nil {
				return err
			}
		}
	}
	for i := 0; i < 3; i++ {
		if b, e := c.Block(2 * time.Second); !b.Ok || !e.Ok {
			return fmt.Errorf("setup block failed: %s %s", b.Err, e.Err)
		}
	}
	shiftTo := 0
	if allReg {
		shiftTo = 2
	}
	c.BeginBlock(2 * time.Second)
	if _, r := c.Exec(stakingtypes.NewMsgDelegate(c.Actors[0].Addr.String(), c.Vals[shiftTo].ValAddr.String(), sdk.NewInt64Coin(Denom, 1_500_000_000))); !r.Ok {
		return fmt.Errorf("setup delegate: %s", r.Err)
	}
	c.EndBlock()
	if b, e := c.Block(2 * time.Second); !b.Ok || !e.Ok {
		return fmt.Errorf("setup block failed")
	}
	cpTs, err := c.App.BridgeKeeper.GetCurrentValidatorSetTimestamp(c.Ctx)
	if err != nil {
		return err
	}
	// two attestation requests for the previous height
	H := c.Height + 1
	snap1, snap2 := crypto.Keccak256([]byte("snapshot-1")), crypto.Keccak256([]byte("snapshot-2"))
	cur, _ := c.App.BridgeKeeper.BridgeValset.Get(c.Ctx)
	reqs := bridgetypes.AttestationRequests{}
	for _, s := range [][]byte{snap1, snap2} {
		reqs.AddRequest(&bridgetypes.AttestationRequest{Snapshot: s})
		if err := c.App.BridgeKeeper.SnapshotToAttestationsMap.Set(c.Ctx, s, *bridgetypes.NewOracleAttestations(len(cur.BridgeValidatorSet))); err != nil {
			return err
		}
	}
	if err := c.App.BridgeKeeper.AttestRequestsByHeightMap.Set(c.Ctx, uint64(H-1), reqs); err != nil {
		return err
	}
	ph := app.NewProposalHandler(log.NewNopLogger(), c.App.StakingKeeper, c.App.AppCodec(), c.App.OracleKeeper, c.App.BridgeKeeper, c.App.StakingKeeper)
	vh := app.NewVoteExtHandler(log.NewNopLogger(), c.App.AppCodec(), c.App.OracleKeeper, c.App.BridgeKeeper)
	cp := c.App.GetConsensusParams(c.Ctx)
	if cp.Abci == nil {
		return fmt.Errorf("consensus params carry no ABCI section")
	}

	signInit := func(k *secp256k1.PrivKey, msg string) []byte {
		hh := sha256.Sum256([]byte(msg))
		sig, _ := k.Sign(hh[:])
		return sig
	}
	mkExt := func(v *Val, shape string) []byte {
		type att = app.OracleAttestation
		e := app.BridgeVoteExtension{}
		k := evmKeys[v.Name]
		switch shape {
		case "empty":
			return []byte{}
		case "garbage":
			return randBytes(rng, 1+rng.Intn(40))
		case "trunc":
			b, _ := json.Marshal(app.BridgeVoteExtension{ValsetSignature: app.BridgeValsetSignature{Signature: randBytes(rng, 64), Timestamp: cpTs}})
			return b[:len(b)/2]
		case "jsonempty":
		case "jsonbare":
			return []byte("{}")
		case "valsetonly":
			b, _ := json.Marshal(map[string]any{"ValsetSignature": app.BridgeValsetSignature{Signature: randBytes(rng, 64), Timestamp: cpTs}})
			return b
		case "attonly":
			b, _ := json.Marshal(map[string]any{"OracleAttestations": []att{{Snapshot: snap1, Attestation: randBytes(rng, 64)}}})
			return b
		case "initgood":
			e.InitialSignature = app.InitialSignature{SignatureA: signInit(k, "TellorLayer: Initial bridge signature A"), SignatureB: signInit(k, "TellorLayer: Initial bridge signature B")}
		case "init65":
			e.InitialSignature = app.InitialSignature{SignatureA: append(signInit(k, "TellorLayer: Initial bridge signature A"), 1), SignatureB: append(signInit(k, "TellorLayer: Initial bridge signature B"), 0)}
		case "initshort":
			e.InitialSignature = app.InitialSignature{SignatureA: randBytes(rng, 1+rng.Intn(63)), SignatureB: signInit(k, "TellorLayer: Initial bridge signature B")}
		case "initshortb":
			e.InitialSignature = app.InitialSignature{SignatureA: signInit(k, "TellorLayer: Initial bridge signature A"), SignatureB: randBytes(rng, rng.Intn(64))}
		case "initmismatch":
			other := secp256k1.GenPrivKeyFromSecret([]byte("someone-else"))
			e.InitialSignature = app.InitialSignature{SignatureA: signInit(k, "TellorLayer: Initial bridge signature A"), SignatureB: signInit(other, "TellorLayer: Initial bridge signature B")}
		case "valset":
			e.ValsetSignature = app.BridgeValsetSignature{Signature: randBytes(rng, 64), Timestamp: cpTs}
		case "valsetwrongts":
			e.ValsetSignature = app.BridgeValsetSignature{Signature: randBytes(rng, 64), Timestamp: cpTs + 12345}
		case "att1":
			e.OracleAttestations = []att{{Snapshot: snap1, Attestation: randBytes(rng, 64)}}
		case "att2dup":
			e.OracleAttestations = []att{{Snapshot: snap1, Attestation: randBytes(rng, 64)}, {Snapshot: snap1, Attestation: randBytes(rng, 64)}}
		case "attforeign":
			e.OracleAttestations = []att{{Snapshot: crypto.Keccak256([]byte("foreign")), Attestation: []byte{}}}
		case "all":
			e.InitialSignature = app.InitialSignature{SignatureA: signInit(k, "TellorLayer: Initial bridge signature A"), SignatureB: signInit(k, "TellorLayer: Initial bridge signature B")}
			e.ValsetSignature = app.BridgeValsetSignature{Signature: randBytes(rng, 65), Timestamp: cpTs}
			e.OracleAttestations = []att{{Snapshot: snap2, Attestation: randBytes(rng, 64)}, {Snapshot: snap1, Attestation: nil}}
		}
		b, _ := json.Marshal(e)
		return b
	}
	consAddr := func(v *Val) []byte { return v.ConsPriv.PubKey().Address() }
	power := func(v *Val) int64 {
		val, _ := c.App.StakingKeeper.GetValidator(c.Ctx, v.ValAddr)
		return val.GetConsensusPower(sdk.DefaultPowerReduction)
	}
	opName := func(op string) string { return c.Name(op) }

	tr, err := NewTrace(tracePath)
	if err != nil {
		return err
	}
	f, err := os.Open(casesPath)
	if err != nil {
		return err
	}
	sc := bufio.NewScanner(f)
	sc.Buffer(make([]byte, 1<<20), 1<<26)
	n, nMut, nPanics := 0, 0, 0
	var samples []any
	for sc.Scan() {
		if strings.TrimSpace(sc.Text()) == "" {
			continue
		}
		var votes []c17Vote
		if err := json.Unmarshal(sc.Bytes(), &votes); err != nil {
			return err
		}
		n++
		byName := map[string]c17Vote{}
		for _, v := range votes {
			byName[v.Val] = v
		}
		// votes ordered by power desc, address asc (as comet delivers them)
		vals := append([]*Val{}, c.Vals...)
		sort.Slice(vals, func(i, j int) bool {
			if power(vals[i]) != power(vals[j]) {
				return power(vals[i]) > power(vals[j])
			}
			return bytes.Compare(consAddr(vals[i]), consAddr(vals[j])) < 0
		})
		ec := abci.ExtendedCommitInfo{Round: 0}
		var lc cVotes
		var votesJ []Rec
		hasEvm := Rec{}
		for _, v := range vals {
			av := byName[v.Name]
			flag := map[string]cmtproto.BlockIDFlag{"commit": cmtproto.BlockIDFlagCommit, "absent": cmtproto.BlockIDFlagAbsent, "nil": cmtproto.BlockIDFlagNil}[av.Flag]
			ev := abci.ExtendedVoteInfo{Validator: abci.Validator{Address: consAddr(v), Power: power(v)}, BlockIdFlag: flag}
			if av.Flag != "absent" {
				ev.VoteExtension = mkExt(v, av.Shape)
				cve := cmtproto.CanonicalVoteExtension{Extension: ev.VoteExtension, Height: H - 1, Round: 0, ChainId: "layer"}
				var buf bytes.Buffer
				if err := protoio.NewDelimitedWriter(&buf).WriteMsg(proto.Message(&cve)); err != nil {
					return err
				}
				sig, _ := v.ConsPriv.Sign(buf.Bytes())
				ev.ExtensionSignature = sig
			}
			ec.Votes = append(ec.Votes, ev)
			lc = append(lc, cVote{cVal{consAddr(v), power(v)}, comet.BlockIDFlag(flag)})
			_, e := c.App.BridgeKeeper.GetEVMAddressByOperator(c.Ctx, v.ValAddr.String())
			hasEvm[v.Name] = e == nil
			votesJ = append(votesJ, Rec{"val": v.Name, "flag": av.Flag, "shape": av.Shape, "power": int(power(v))})
		}
		base := c.App.BaseApp.NewUncachedContext(false, cmtproto.Header{ChainID: "layer", Height: H, Time: c.Time.Add(2 * time.Second)})
		ctx0 := base.WithConsensusParams(cp).WithHeaderInfo(header.Info{Height: H, ChainID: "layer"}).WithCometInfo(cBlock{cCommit{0, lc}}).WithBlockHeight(H)
		ctx, _ := ctx0.CacheContext()
		rec := Rec{"ev": "Commit", "n": n, "votes": votesJ, "hasevm": hasEvm}
		panics := []string{}
		// verify each extension as another validator would
		var verif []Rec
		for i, ev := range ec.Votes {
			if ev.BlockIdFlag == cmtproto.BlockIDFlagAbsent {
				continue
			}
			st := "panic"
			r := guard(func() error {
				resp, err := vh.VerifyVoteExtensionHandler(ctx, &abci.RequestVerifyVoteExtension{Height: H - 1, VoteExtension: ev.VoteExtension, ValidatorAddress: vals[i].ValAddr})
				if err != nil {
					return err
				}
				st = resp.Status.String()
				return nil
			})
			if r.Panic {
				panics = append(panics, "VerifyVoteExtension:"+firstLines(r.Err, 1))
			}
			verif = append(verif, Rec{"val": vals[i].Name, "status": st})
		}
		rec["verify"] = verif
		// prepare
		var inj []byte
		prepOk := false
		r := guard(func() error {
			resp, err := ph.PrepareProposalHandler(ctx, &abci.RequestPrepareProposal{Height: H, LocalLastCommit: ec, Txs: [][]byte{[]byte("usertx")}})
			if err != nil {
				return err
			}
			if len(resp.Txs) == 2 {
				inj = resp.Txs[0]
				prepOk = true
			}
			return nil
		})
		if r.Panic {
			panics = append(panics, "PrepareProposal:"+firstLines(r.Err, 1))
		}
		rec["prepared"] = prepOk
		var tx app.VoteExtTx
		if prepOk {
			_ = json.Unmarshal(inj, &tx)
			ops := func(l []string) []string {
				out := []string{}
				for _, o := range l {
					out = append(out, opName(o))
				}
				return out
			}
			evms := []string{}
			for _, e := range tx.OpAndEVMAddrs.EVMAddresses {
				evms = append(evms, strings.ToLower(strings.TrimPrefix(e, "0x")))
			}
			snaps := []string{}
			for _, s := range tx.OracleAttestations.Snapshots {
				switch {
				case bytes.Equal(s, snap1):
					snaps = append(snaps, "s1")
				case bytes.Equal(s, snap2):
					snaps = append(snaps, "s2")
				default:
					snaps = append(snaps, "foreign")
				}
			}
			ts := []Num{}
			for _, t := range tx.ValsetSigs.Timestamps {
				ts = append(ts, NumU64(uint64(t)))
			}
			rec["inj"] = Rec{"regops": ops(tx.OpAndEVMAddrs.OperatorAddresses), "regevms": evms, "vsops": ops(tx.ValsetSigs.OperatorAddresses), "vsts": ts,
				"attops": ops(tx.OracleAttestations.OperatorAddresses), "attsnaps": snaps, "height": int(tx.BlockHeight)}
		}
		ownEvm := Rec{}
		for _, v := range c.Vals {
			ownEvm[v.Name] = hex.EncodeToString(evmAddr[v.Name])
		}
		rec["ownevm"] = ownEvm
		rec["cpts"] = NumU64(cpTs)
		// process on the same state
		process := func(txs [][]byte) string {
			st := "panic"
			pctx, _ := ctx0.CacheContext()
			r := guard(func() error {
				resp, err := ph.ProcessProposalHandler(pctx, &abci.RequestProcessProposal{Height: H, Txs: txs})
				if err != nil {
					return err
				}
				st = resp.Status.String()
				return nil
			})
			if r.Panic {
				panics = append(panics, "ProcessProposal:"+firstLines(r.Err, 1))
			} else if !r.Ok {
				st = "error"
			}
			return st
		}
		if prepOk {
			rec["process"] = process([][]byte{inj, []byte("usertx")})
			// single-field mutations of the injected lists
			var muts []Rec
			mutate := func(name string, f func(t *app.VoteExtTx) bool) {
				var t2 app.VoteExtTx
				_ = json.Unmarshal(inj, &t2)
				if !f(&t2) {
					return
				}
				b, _ := json.Marshal(t2)
				if bytes.Equal(b, inj) {
					return
				}
				muts = append(muts, Rec{"m": name, "status": process([][]byte{b, []byte("usertx")})})
				nMut++
			}
			strMut := func(prefix string, get func(t *app.VoteExtTx) *[]string, extra string) {
				mutate(prefix+"-add", func(t *app.VoteExtTx) bool { p := get(t); *p = append(*p, extra); return true })
				mutate(prefix+"-drop", func(t *app.VoteExtTx) bool { p := get(t); if len(*p) == 0 { return false }; *p = (*p)[:len(*p)-1]; return true })
				mutate(prefix+"-change", func(t *app.VoteExtTx) bool { p := get(t); if len(*p) == 0 { return false }; (*p)[0] = extra; return true })
				mutate(prefix+"-swap", func(t *app.VoteExtTx) bool { p := get(t); if len(*p) < 2 || (*p)[0] == (*p)[1] { return false }; (*p)[0], (*p)[1] = (*p)[1], (*p)[0]; return true })
			}
			strMut("regops", func(t *app.VoteExtTx) *[]string { return &t.OpAndEVMAddrs.OperatorAddresses }, c.Vals[0].ValAddr.String())
			strMut("regevms", func(t *app.VoteExtTx) *[]string { return &t.OpAndEVMAddrs.EVMAddresses }, "0x00000000000000000000000000000000000000Ff")
			strMut("vsops", func(t *app.VoteExtTx) *[]string { return &t.ValsetSigs.OperatorAddresses }, c.Vals[1].ValAddr.String())
			strMut("vssigs", func(t *app.VoteExtTx) *[]string { return &t.ValsetSigs.Signatures }, "abcd")
			strMut("attops", func(t *app.VoteExtTx) *[]string { return &t.OracleAttestations.OperatorAddresses }, c.Vals[2].ValAddr.String())
			mutate("vsts-add", func(t *app.VoteExtTx) bool { t.ValsetSigs.Timestamps = append(t.ValsetSigs.Timestamps, 7); return true })
			mutate("vsts-change", func(t *app.VoteExtTx) bool { if len(t.ValsetSigs.Timestamps) == 0 { return false }; t.ValsetSigs.Timestamps[0]++; return true })
			mutate("atts-add", func(t *app.VoteExtTx) bool { t.OracleAttestations.Attestations = append(t.OracleAttestations.Attestations, []byte{1}); return true })
			mutate("atts-change", func(t *app.VoteExtTx) bool { if len(t.OracleAttestations.Attestations) == 0 { return false }; t.OracleAttestations.Attestations[0] = []byte{9, 9}; return true })
			mutate("snaps-add", func(t *app.VoteExtTx) bool { t.OracleAttestations.Snapshots = append(t.OracleAttestations.Snapshots, snap2); return true })
			mutate("snaps-change", func(t *app.VoteExtTx) bool { if len(t.OracleAttestations.Snapshots) == 0 { return false }; t.OracleAttestations.Snapshots[0] = []byte{5}; return true })
			mutate("snaps-drop", func(t *app.VoteExtTx) bool { if len(t.OracleAttestations.Snapshots) == 0 { return false }; t.OracleAttestations.Snapshots = t.OracleAttestations.Snapshots[1:]; return true })
			rec["muts"] = muts
			// random bytes as the injected tx
			rec["garbagetx"] = process([][]byte{randBytes(rng, 1+rng.Intn(60)), []byte("usertx")})
			// pre-blocker applies the accepted data
			if rec["process"] == "ACCEPT" {
				bctx, _ := ctx0.CacheContext()
				slotsBefore := c17Slots(c, bctx, cpTs, snap1, snap2)
				r := guard(func() error {
					_, err := ph.PreBlocker(bctx, &abci.RequestFinalizeBlock{Height: H, Txs: [][]byte{inj, []byte("usertx")}})
					return err
				})
				if r.Panic {
					panics = append(panics, "PreBlocker:"+firstLines(r.Err, 1))
				}
				rec["preblock_ok"] = r.Ok
				newEvm := Rec{}
				for _, v := range c.Vals {
					if e, err := c.App.BridgeKeeper.GetEVMAddressByOperator(bctx, v.ValAddr.String()); err == nil {
						newEvm[v.Name] = hex.EncodeToString(e)
					}
				}
				rec["evmafter"] = newEvm
				rec["slotsbefore"] = slotsBefore
				rec["slotsafter"] = c17Slots(c, bctx, cpTs, snap1, snap2)
				// positions of each validator in the previous / current bridge set (by its EVM address after pre-block)
				rec["positions"] = c17Positions(c, bctx, cpTs)
			}
		}
		// pre-blocker on arbitrary bytes must not panic either
		gctx, _ := ctx0.CacheContext()
		r = guard(func() error {
			_, err := ph.PreBlocker(gctx, &abci.RequestFinalizeBlock{Height: H, Txs: [][]byte{randBytes(rng, 1+rng.Intn(60))}})
			return err
		})
		if r.Panic {
			panics = append(panics, "PreBlocker(garbage):"+firstLines(r.Err, 1))
		}
		rec["panics"] = panics
		nPanics += len(panics)
		tr.Emit(rec)
		if len(samples) < 3 && n%37 == 2 {
			samples = append(samples, Rec{"votes": votesJ, "process": rec["process"], "inj": rec["inj"]})
		}
	}
	f.Close()
	st := map[string]any{"cases": n, "mutations": nMut, "panics": nPanics, "lines": tr.N, "samples": samples}
	if err := tr.Close(); err != nil {
		return err
	}
	return WriteJSON(statsPath, st)
}

func c17Slots(c *Chain, ctx sdk.Context, cpTs uint64, snaps ...[]byte) Rec {
	out := Rec{}
	if sg, err := c.App.BridgeKeeper.BridgeValsetSignaturesMap.Get(ctx, cpTs); err == nil {
		f := []bool{}
		for _, s := range sg.Signatures {
			f = append(f, len(s) > 0)
		}
		out["valset"] = f
	}
	for i, s := range snaps {
		if a, err := c.App.BridgeKeeper.SnapshotToAttestationsMap.Get(ctx, s); err == nil {
			f := []bool{}
			for _, x := range a.Attestations {
				f = append(f, len(x) > 0)
			}
			out[fmt.Sprintf("s%d", i+1)] = f
		}
	}
	return out
}

// c17Positions: 1-based position of every validator's EVM address in the previous checkpoint's set (valset
// signature slots) and in the currently saved set (attestation slots); 0 = not a member.
func c17Positions(c *Chain, ctx sdk.Context, cpTs uint64) Rec {
	out := Rec{}
	idx, err := c.App.BridgeKeeper.ValsetTimestampToIdxMap.Get(ctx, cpTs)
	var prev bridgetypes.BridgeValidatorSet
	if err == nil && idx.Index > 0 {
		if pt, err := c.App.BridgeKeeper.ValidatorCheckpointIdxMap.Get(ctx, idx.Index-1); err == nil {
			prev, _ = c.App.BridgeKeeper.BridgeValsetByTimestampMap.Get(ctx, pt.Timestamp)
		}
	}
	cur, _ := c.App.BridgeKeeper.BridgeValset.Get(ctx)
	pos := func(set bridgetypes.BridgeValidatorSet, evm []byte) int {
		for i, b := range set.BridgeValidatorSet {
			if bytes.Equal(b.EthereumAddress, evm) {
				return i + 1
			}
		}
		return 0
	}
	for _, v := range c.Vals {
		e, err := c.App.BridgeKeeper.GetEVMAddressByOperator(ctx, v.ValAddr.String())
		if err != nil {
			out[v.Name] = Rec{"prev": 0, "cur": 0}
			continue
		}
		out[v.Name] = Rec{"prev": pos(prev, e), "cur": pos(cur, e)}
	}
	return out
}
