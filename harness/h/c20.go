package h

import (
	"bufio"
	"encoding/json"
	"math"
	"math/big"
	"math/rand"
	"os"
	"sort"
	"strings"
	"sync"
	"sync/atomic"
	"time"

	clienttypes "github.com/tellor-io/layer/daemons/pricefeed/client/types"
	servertypes "github.com/tellor-io/layer/daemons/server/types"
	pricefeedtypes "github.com/tellor-io/layer/daemons/server/types/pricefeed"
	"github.com/tellor-io/layer/lib"
)

var u64Table = []uint64{0, 1, 2, 1 << 31, 1<<63 - 1, 1 << 63, math.MaxUint64 - 1, math.MaxUint64}
var i64Table = []int64{math.MinInt64, math.MinInt64 + 1, -(1 << 31), -1, 0, 1, 1<<62 + 1, math.MaxInt64}
var u32Table = []uint32{0, 1, 2, 1 << 15, 1<<31 - 1, 1 << 31, math.MaxUint32 - 1, math.MaxUint32}
var i32Table = []int32{math.MinInt32, math.MinInt32 + 1, -(1 << 15), -1, 0, 1, 1<<30 + 1, math.MaxInt32}

func signedRec(x int64) Rec { return Rec{"neg": x < 0, "mag": NumBig(new(big.Int).Abs(big.NewInt(x)))} }

// RunC20Median replays TLC-enumerated index lists (mapped order-preservingly onto boundary values of
// each integer type) through the real lib.Median.
func RunC20Median(casesPath, tracePath, statsPath string) error {
	tr, err := NewTrace(tracePath)
	if err != nil {
		return err
	}
	f, err := os.Open(casesPath)
	if err != nil {
		return err
	}
	sc := bufio.NewScanner(f)
	n := 0
	var samples []any
	for sc.Scan() {
		if strings.TrimSpace(sc.Text()) == "" {
			continue
		}
		var idx []int
		if err := json.Unmarshal(sc.Bytes(), &idx); err != nil {
			return err
		}
		n++
		{
			in := make([]uint64, len(idx))
			inj := make([]Num, len(idx))
			for i, k := range idx {
				in[i] = u64Table[k]
				inj[i] = NumU64(in[i])
			}
			out, e := lib.Median(in)
			rec := Rec{"ev": "Median", "typ": "u64", "signed": false, "in": inj, "ok": e == nil, "out": NumU64(out)}
			tr.Emit(rec)
			if len(samples) < 3 && n%401 == 7 {
				samples = append(samples, rec)
			}
		}
		{
			in := make([]uint32, len(idx))
			inj := make([]Num, len(idx))
			for i, k := range idx {
				in[i] = u32Table[k]
				inj[i] = NumU64(uint64(in[i]))
			}
			out, e := lib.Median(in)
			tr.Emit(Rec{"ev": "Median", "typ": "u32", "signed": false, "in": inj, "ok": e == nil, "out": NumU64(uint64(out))})
		}
		{
			in := make([]int64, len(idx))
			inj := make([]Rec, len(idx))
			for i, k := range idx {
				in[i] = i64Table[k]
				inj[i] = Rec{"neg": in[i] < 0, "mag": NumBig(new(big.Int).Abs(big.NewInt(in[i])))}
			}
			out, e := lib.Median(in)
			tr.Emit(Rec{"ev": "Median", "typ": "i64", "signed": true, "in": inj, "ok": e == nil, "out": Rec{"neg": out < 0, "mag": NumBig(new(big.Int).Abs(big.NewInt(out)))}})
		}
		{
			in := make([]int32, len(idx))
			inj := make([]Rec, len(idx))
			for i, k := range idx {
				in[i] = i32Table[k]
				inj[i] = signedRec(int64(in[i]))
			}
			out, e := lib.Median(in)
			tr.Emit(Rec{"ev": "Median", "typ": "i32", "signed": true, "in": inj, "ok": e == nil, "out": signedRec(int64(out))})
		}
	}
	f.Close()
	st := map[string]any{"cases": n, "lines": tr.N, "samples": samples}
	if err := tr.Close(); err != nil {
		return err
	}
	return WriteJSON(statsPath, st)
}

type c20Event struct {
	seq uint64
	rec Rec
}

// RunC20Conc records concurrent histories of UpdatePrices / GetValidMedianPrices on one real
// MarketToExchangePrices per segment. Events are ordered by an atomic sequence number taken before
// each call (inv) and after it returned (ret); never by wall clock.
func RunC20Conc(tracePath, statsPath string, seed int64, segments, epochs, goroutines, opsPer int) error {
	tr, err := NewTrace(tracePath)
	if err != nil {
		return err
	}
	maxAge := 10 * time.Second
	t0 := time.Date(2024, 1, 1, 0, 0, 0, 0, time.UTC)
	tsChoices := []time.Duration{0, time.Second, 2 * time.Second, 5 * time.Second, 9 * time.Second, 10 * time.Second, 10*time.Second + time.Millisecond, 11 * time.Second, 20 * time.Second, 21 * time.Second}
	exch := []string{"binance", "kraken", "coinbase"}
	nReads, nUpd, nNonEmpty := 0, 0, 0
	var samples []any
	var id uint64
	for seg := 0; seg < segments; seg++ {
		cache := pricefeedtypes.NewMarketToExchangePrices(maxAge)
		tr.Emit(Rec{"ev": "new", "hist": seg + 1})
		for ep := 0; ep < epochs; ep++ {
			var seq uint64
			var mu sync.Mutex
			var evs []c20Event
			var wg sync.WaitGroup
			start := make(chan struct{})
			for g := 0; g < goroutines; g++ {
				wg.Add(1)
				rng := rand.New(rand.NewSource(seed*7919 + int64(seg)*104729 + int64(ep)*1299709 + int64(g)))
				go func(rng *rand.Rand) {
					defer wg.Done()
					<-start
					var local []c20Event
					for k := 0; k < opsPer; k++ {
						cid := atomic.AddUint64(&id, 1)
						if rng.Intn(2) == 0 {
							// update: 1..3 entries, possibly same (market, exchange) twice, stale / equal / newer times
							var ups []*servertypes.MarketPriceUpdate
							var bj []Rec
							ne := 1 + rng.Intn(3)
							for j := 0; j < ne; j++ {
								m := uint32(rng.Intn(2))
								e := exch[rng.Intn(len(exch))]
								t := t0.Add(tsChoices[rng.Intn(len(tsChoices))])
								p := u64Table[rng.Intn(len(u64Table))]
								if rng.Intn(2) == 0 {
									p = uint64(rng.Int63n(1000))
								}
								tt := t
								ups = append(ups, &servertypes.MarketPriceUpdate{MarketId: m, ExchangePrices: []*servertypes.ExchangePrice{{ExchangeId: e, Price: p, LastUpdateTime: &tt}}})
								bj = append(bj, Rec{"m": int(m), "e": e, "t": NumI64(t.UnixMilli()), "p": NumU64(p)})
							}
							local = append(local, c20Event{atomic.AddUint64(&seq, 1), Rec{"ev": "inv", "hist": seg + 1, "id": int(cid), "op": "update", "batch": bj}})
							cache.UpdatePrices(ups)
							local = append(local, c20Event{atomic.AddUint64(&seq, 1), Rec{"ev": "ret", "hist": seg + 1, "id": int(cid), "op": "update"}})
						} else {
							var params []clienttypes.MarketParam
							var pj []Rec
							for _, m := range []uint32{0, 1, 2} {
								if rng.Intn(4) == 0 {
									continue
								}
								me := uint32(rng.Intn(4))
								params = append(params, clienttypes.MarketParam{Id: m, MinExchanges: me})
								pj = append(pj, Rec{"m": int(m), "minex": int(me)})
							}
							if pj == nil {
								pj = []Rec{}
							}
							rt := t0.Add(tsChoices[rng.Intn(len(tsChoices))] + maxAge*time.Duration(rng.Intn(2)))
							local = append(local, c20Event{atomic.AddUint64(&seq, 1), Rec{"ev": "inv", "hist": seg + 1, "id": int(cid), "op": "read", "params": pj, "readt": NumI64(rt.UnixMilli()), "maxage": NumI64(maxAge.Milliseconds())}})
							res := cache.GetValidMedianPrices(params, rt)
							s := atomic.AddUint64(&seq, 1)
							var rj []Rec
							ms := make([]int, 0, len(res))
							for m := range res {
								ms = append(ms, int(m))
							}
							sort.Ints(ms)
							for _, m := range ms {
								rj = append(rj, Rec{"m": m, "p": NumU64(res[uint32(m)])})
							}
							if rj == nil {
								rj = []Rec{}
							}
							local = append(local, c20Event{s, Rec{"ev": "ret", "hist": seg + 1, "id": int(cid), "op": "read", "res": rj}})
						}
					}
					mu.Lock()
					evs = append(evs, local...)
					mu.Unlock()
				}(rng)
			}
			close(start)
			wg.Wait()
			sort.Slice(evs, func(i, j int) bool { return evs[i].seq < evs[j].seq })
			for _, e := range evs {
				tr.Emit(e.rec)
				if e.rec["ev"] == "ret" {
					if e.rec["op"] == "read" {
						nReads++
						if len(e.rec["res"].([]Rec)) > 0 {
							nNonEmpty++
							if len(samples) < 3 {
								samples = append(samples, e.rec)
							}
						}
					} else {
						nUpd++
					}
				}
			}
		}
	}
	st := map[string]any{"segments": segments, "epochs": epochs, "goroutines": goroutines, "reads": nReads, "updates": nUpd, "reads_with_prices": nNonEmpty, "lines": tr.N, "samples": samples}
	if err := tr.Close(); err != nil {
		return err
	}
	return WriteJSON(statsPath, st)
}
