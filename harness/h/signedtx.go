package h

import (
	"context"

	"github.com/cosmos/cosmos-sdk/client"
	sdk "github.com/cosmos/cosmos-sdk/types"
	"github.com/cosmos/cosmos-sdk/types/tx/signing"
	authsigning "github.com/cosmos/cosmos-sdk/x/auth/signing"
)

// SignedTx builds a real transaction of the given messages, signed (SIGN_MODE_DIRECT) by signer with
// its current account number and sequence, the way a client would.
func (c *Chain) SignedTx(signer *Actor, gas uint64, msgs ...sdk.Msg) (sdk.Tx, error) {
	txc := c.App.TxConfig()
	b := txc.NewTxBuilder()
	if err := b.SetMsgs(msgs...); err != nil {
		return nil, err
	}
	b.SetGasLimit(gas)
	acc := c.App.AccountKeeper.GetAccount(c.Ctx, signer.Addr)
	var num, seq uint64
	if acc != nil {
		num, seq = acc.GetAccountNumber(), acc.GetSequence()
	}
	return signWith(txc, b, signer, c.Ctx.ChainID(), num, seq)
}

func signWith(txc client.TxConfig, b client.TxBuilder, signer *Actor, chainID string, num, seq uint64) (sdk.Tx, error) {
	mode := signing.SignMode_SIGN_MODE_DIRECT
	empty := signing.SignatureV2{PubKey: signer.Priv.PubKey(), Data: &signing.SingleSignatureData{SignMode: mode}, Sequence: seq}
	if err := b.SetSignatures(empty); err != nil {
		return nil, err
	}
	sd := authsigning.SignerData{ChainID: chainID, AccountNumber: num, Sequence: seq, PubKey: signer.Priv.PubKey(), Address: signer.Addr.String()}
	bz, err := authsigning.GetSignBytesAdapter(context.Background(), txc.SignModeHandler(), mode, sd, b.GetTx())
	if err != nil {
		return nil, err
	}
	sig, err := signer.Priv.Sign(bz)
	if err != nil {
		return nil, err
	}
	full := signing.SignatureV2{PubKey: signer.Priv.PubKey(), Data: &signing.SingleSignatureData{SignMode: mode, Signature: sig}, Sequence: seq}
	if err := b.SetSignatures(full); err != nil {
		return nil, err
	}
	return b.GetTx(), nil
}

// Ante runs the transaction through the ante handler the production app has INSTALLED (app/ante.go: the whole chain of
// decorators in their production order), on a cache of the current state that is discarded.  Deliver mode, not simulated.
func (c *Chain) Ante(tx sdk.Tx) PhaseResult {
	return guard(func() error {
		cc, _ := c.Ctx.CacheContext()
		bz, err := c.App.TxConfig().TxEncoder()(tx)
		if err != nil {
			return err
		}
		_, err = c.App.AnteHandler()(cc.WithTxBytes(bz), tx, false)
		return err
	})
}
