package h

import (
	"strings"
)

type HistStats struct {
	Histories int            `json:"histories"`
	Lines     int            `json:"lines"`
	Events    map[string]int `json:"events"`
	OkEvents  map[string]int `json:"ok_events"`
	Halted    int            `json:"halted_histories"`
	Samples   []any          `json:"samples"`
}

type HistDriverOpts struct {
	N        int
	Seed     int64
	Proj     string
	Opts     HistOpts
	World    WorldOpts
	PerHist  func(w *World) // replaces RunHistory when set
	Only     int            // run only this history index (1-based), 0 = all
	SignedHalf bool         // every second history runs in signed mode (transactions through the installed ante handler)
	MintHalf   bool         // every second history starts minting in its first block
	FanoutQ    bool         // every fourth history starts with the fan-out dispute story (HistOpts.Fanout)
}

// RunHist runs N independent random histories on fresh chains and writes one concatenated trace;
// the "hist" field separates them (the trace specs reset their state when it changes).
func RunHist(tracePath, statsPath string, d HistDriverOpts) error {
	tr, err := NewTrace(tracePath)
	if err != nil {
		return err
	}
	st := &HistStats{OkEvents: map[string]int{}}
	d.World.Proj = strings.Split(d.Proj, ",")
	for i := 0; i < d.N; i++ {
		if d.Only > 0 && i+1 != d.Only {
			continue
		}
		wo := d.World
		if d.SignedHalf {
			wo.Chain.Signed = i%2 == 1
		}
		w, err := NewWorld(d.Seed*1_000_003+int64(i), tr, i+1, wo)
		if err != nil {
			return err
		}
		w.Extra = func(w *World, rec Rec) {
			if ok, _ := rec["ok"].(bool); ok {
				st.OkEvents[rec["ev"].(string)]++
			}
			if len(st.Samples) < 6 && (tr.N%97 == 3) {
				st.Samples = append(st.Samples, rec)
			}
		}
		if d.PerHist != nil {
			d.PerHist(w)
		} else {
			ho := d.Opts
			if d.MintHalf {
				ho.MintInitEarly = i%2 == 0
			}
			if d.FanoutQ {
				ho.Fanout = i%4 == 2
			}
			w.RunHistory(ho)
		}
		if w.Halted {
			st.Halted++
		}
		st.Histories++
		w.Close()
	}
	st.Lines = tr.N
	st.Events = tr.Counts
	if err := tr.Close(); err != nil {
		return err
	}
	return WriteJSON(statsPath, st)
}
