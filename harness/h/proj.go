package h

import (
	"crypto/sha256"
	"encoding/hex"
	"math/big"
	"sort"
	"time"

	bridgetypes "github.com/tellor-io/layer/x/bridge/types"
	disputetypes "github.com/tellor-io/layer/x/dispute/types"
	minttypes "github.com/tellor-io/layer/x/mint/types"
	oracletypes "github.com/tellor-io/layer/x/oracle/types"
	registrytypes "github.com/tellor-io/layer/x/registry/types"
	reportertypes "github.com/tellor-io/layer/x/reporter/types"

	"cosmossdk.io/collections"
	sdkmath "cosmossdk.io/math"

	sdk "github.com/cosmos/cosmos-sdk/types"
	authtypes "github.com/cosmos/cosmos-sdk/x/auth/types"
	distrtypes "github.com/cosmos/cosmos-sdk/x/distribution/types"
	govtypes "github.com/cosmos/cosmos-sdk/x/gov/types"
	stakingtypes "github.com/cosmos/cosmos-sdk/x/staking/types"
)

type collectionsTriple = collections.Triple[[]byte, []byte, uint64]

// ModuleNames whose balances are projected (abstract account names of the specs).
var ModuleNames = map[string]string{
	"oracle":    "oracle",
	"tbr":       minttypes.TimeBasedRewards,
	"feecoll":   authtypes.FeeCollectorName,
	"tipsesc":   reportertypes.TipsEscrowPool,
	"dispute":   disputetypes.ModuleName,
	"bridge":    "bridge",
	"bonded":    stakingtypes.BondedPoolName,
	"notbonded": stakingtypes.NotBondedPoolName,
	"mint":      minttypes.ModuleName,
	"gov":       govtypes.ModuleName,
	"distr":     distrtypes.ModuleName,
	"reporter":  reportertypes.ModuleName,
}

func nsNum(t time.Time) Num {
	if t.IsZero() || t.UnixNano() < 0 {
		return Num{}
	}
	return NumI64(t.UnixNano())
}

func ms(t time.Time) Num {
	if t.IsZero() || t.UnixMilli() < 0 {
		return Num{}
	}
	return NumI64(t.UnixMilli())
}

// project adds the sections selected in w.Proj to rec["post"]. It reads only through exported
// collections and the bank / staking keepers.
func (w *World) project(rec Rec) {
	post := Rec{}
	if w.Proj["bank"] {
		post["bank"] = w.projBank()
	}
	if w.Proj["oracle"] {
		post["oracle"] = w.projOracle()
	}
	if w.Proj["reports"] {
		post["reports"] = w.projReports()
	}
	if w.Proj["aggs"] {
		post["aggs"] = w.projAggs()
	}
	if w.Proj["stake"] {
		post["stake"] = w.projStake()
	}
	if w.Proj["reporter"] {
		post["reporter"] = w.projReporter()
	}
	if w.Proj["dispute"] {
		post["dispute"] = w.projDispute()
	}
	if w.Proj["hold"] {
		post["hold"] = w.projHoldings()
	}
	if w.Proj["config"] {
		post["config"] = w.projConfig()
	}
	if w.Proj["valset"] {
		post["valset"] = w.projValset()
	}
	if w.Proj["bridge"] {
		post["bridge"] = w.projBridge()
	}
	if len(post) > 0 {
		rec["post"] = post
	}
}

func (w *World) namedAccounts() map[string]sdk.AccAddress {
	m := map[string]sdk.AccAddress{}
	for _, a := range w.Actors {
		m[a.Name] = a.Addr
	}
	for _, v := range w.Vals {
		m[v.Name] = v.Oper.Addr
	}
	for n, mod := range ModuleNames {
		m[n] = authtypes.NewModuleAddress(mod)
	}
	return m
}

func (w *World) projBank() Rec {
	bal := Rec{}
	for n, a := range w.namedAccounts() {
		bal[n] = NumInt(w.Bal(a))
	}
	sum := new(big.Int)
	w.App.BankKeeper.IterateAllBalances(w.Ctx, func(_ sdk.AccAddress, c sdk.Coin) bool {
		if c.Denom == Denom {
			sum.Add(sum, c.Amount.BigInt())
		}
		return false
	})
	r := Rec{"supply": NumInt(w.Supply()), "sumbal": NumBig(sum), "bal": bal}
	if m, err := w.App.MintKeeper.Minter.Get(w.Ctx); err == nil {
		mr := Rec{"init": m.Initialized, "hasprev": m.PreviousBlockTime != nil}
		if m.PreviousBlockTime != nil {
			mr["prev"] = ms(*m.PreviousBlockTime)
			mr["prevn"] = NumI64(m.PreviousBlockTime.UnixNano())
		} else {
			mr["prev"] = Num{}
			mr["prevn"] = Num{}
		}
		r["minter"] = mr
	}
	return r
}

func (w *World) projOracle() Rec {
	var qs []Rec
	sumAmt := new(big.Int)
	_ = w.App.OracleKeeper.Query.Walk(w.Ctx, nil, func(k collections.Pair[[]byte, uint64], q oracletypes.QueryMeta) (bool, error) {
		qs = append(qs, Rec{"q": w.QN(k.K1()), "id": int(q.Id), "amt": NumInt(q.Amount), "exp": int(q.Expiration), "cyc": q.CycleList,
			"rep": q.HasRevealedReports, "win": int(q.RegistrySpecBlockWindow)})
		sumAmt.Add(sumAmt, q.Amount.BigInt())
		return false, nil
	})
	if qs == nil {
		qs = []Rec{}
	}
	r := Rec{"queries": qs, "sumamt": NumBig(sumAmt)}
	cl, err := w.App.OracleKeeper.GetCyclelist(w.Ctx)
	names := []string{}
	if err == nil {
		for _, qd := range cl {
			found := hex.EncodeToString(qd)
			for n, d := range w.QData {
				if string(d) == string(qd) {
					found = n
				}
			}
			names = append(names, found)
		}
	}
	idx, _ := w.App.OracleKeeper.CyclelistSequencer.Peek(w.Ctx)
	r["cyclelist"] = names
	r["cycidx"] = int(idx)
	return r
}

// projReports lists the micro reports of rounds that are still open (their query meta exists).
func (w *World) projReports() []Rec {
	open := map[string]bool{}
	_ = w.App.OracleKeeper.Query.Walk(w.Ctx, nil, func(k collections.Pair[[]byte, uint64], q oracletypes.QueryMeta) (bool, error) {
		open[string(k.K1())+"/"+itoa(k.K2())] = true
		return false, nil
	})
	out := []Rec{}
	_ = w.App.OracleKeeper.Reports.Walk(w.Ctx, nil, func(k collectionsTriple, r oracletypes.MicroReport) (bool, error) {
		if open[string(k.K1())+"/"+itoa(k.K3())] {
			out = append(out, Rec{"q": w.QN(k.K1()), "meta": int(k.K3()), "rep": w.Name(r.Reporter), "val": r.Value, "pow": NumU64(r.Power), "h": int(r.BlockNumber), "cyc": r.Cyclelist})
		}
		return false, nil
	})
	return out
}

func itoa(u uint64) string { return new(big.Int).SetUint64(u).String() }

func (w *World) projAggs() Rec {
	out := map[string][]Rec{}
	_ = w.App.OracleKeeper.Aggregates.Walk(w.Ctx, nil, func(k collections.Pair[[]byte, uint64], a oracletypes.Aggregate) (bool, error) {
		n := w.QN(k.K1())
		out[n] = append(out[n], Rec{"ts": NumU64(k.K2()), "nonce": int(a.Index), "flag": a.Flagged, "val": a.AggregateValue, "pow": NumU64(a.ReporterPower),
			"rep": w.Name(a.AggregateReporter), "mh": int(a.MicroHeight), "h": int(a.Height), "n": len(a.Reporters), "meta": int(a.MetaId)})
		return false, nil
	})
	r := Rec{}
	for k, v := range out {
		r[k] = v
	}
	return r
}

func (w *World) projStake() Rec {
	bonded, notBonded := new(big.Int), new(big.Int)
	vals := Rec{}
	minTok, minPow := int64(1), int64(1)
	allVals, _ := w.App.StakingKeeper.GetAllValidators(w.Ctx)
	for _, v := range allVals {
		if v.IsBonded() {
			bonded.Add(bonded, v.Tokens.BigInt())
		} else {
			notBonded.Add(notBonded, v.Tokens.BigInt())
		}
		if v.Tokens.IsNegative() {
			minTok = -1
		}
		if v.ConsensusPower(sdk.DefaultPowerReduction) < 0 {
			minPow = -1
		}
		vals[w.Name(v.OperatorAddress)] = Rec{"tok": NumBig(new(big.Int).Abs(v.Tokens.BigInt())), "status": int(v.Status), "jailed": v.Jailed}
	}
	unb := new(big.Int)
	_ = w.App.StakingKeeper.IterateUnbondingDelegations(w.Ctx, func(_ int64, u stakingtypes.UnbondingDelegation) bool {
		for _, e := range u.Entries {
			unb.Add(unb, e.Balance.BigInt())
		}
		return false
	})
	dels := []Rec{}
	posShares := true
	allDels, _ := w.App.StakingKeeper.GetAllDelegations(w.Ctx)
	for _, d := range allDels {
		if !d.Shares.IsPositive() {
			posShares = false
		}
		va, _ := sdk.ValAddressFromBech32(d.ValidatorAddress)
		v, err := w.App.StakingKeeper.GetValidator(w.Ctx, va)
		tok := sdkmath.ZeroInt()
		st := 0
		if err == nil {
			tok = v.TokensFromShares(d.Shares).TruncateInt()
			st = int(v.Status)
		}
		dels = append(dels, Rec{"del": w.Name(d.DelegatorAddress), "val": w.Name(d.ValidatorAddress), "tok": NumInt(tok), "vstatus": st, "pos": d.Shares.IsPositive()})
	}
	sort.Slice(dels, func(i, j int) bool {
		if dels[i]["del"].(string) != dels[j]["del"].(string) {
			return dels[i]["del"].(string) < dels[j]["del"].(string)
		}
		return dels[i]["val"].(string) < dels[j]["val"].(string)
	})
	return Rec{"bondedtok": NumBig(bonded), "notbondedtok": NumBig(notBonded), "unbonding": NumBig(unb),
		"poolbonded": NumInt(w.ModBal(stakingtypes.BondedPoolName)), "poolnotbonded": NumInt(w.ModBal(stakingtypes.NotBondedPoolName)),
		"vals": vals, "dels": dels, "posshares": posShares, "nonneg": minTok > 0 && minPow > 0}
}

func (w *World) projReporter() Rec {
	reps := Rec{}
	_ = w.App.ReporterKeeper.Reporters.Walk(w.Ctx, nil, func(k []byte, r reportertypes.OracleReporter) (bool, error) {
		reps[w.Name(sdk.AccAddress(k).String())] = Rec{"jailed": r.Jailed, "until": ms(r.JailedUntil), "min": NumInt(r.MinTokensRequired), "comm": Dec18(r.CommissionRate)}
		return false, nil
	})
	sels := Rec{}
	_ = w.App.ReporterKeeper.Selectors.Walk(w.Ctx, nil, func(k []byte, s reportertypes.Selection) (bool, error) {
		sels[w.Name(sdk.AccAddress(k).String())] = Rec{"rep": w.Name(sdk.AccAddress(s.Reporter).String()), "locked": ms(s.LockedUntilTime), "cnt": int(s.DelegationsCount)}
		return false, nil
	})
	tips := Rec{}
	sum := new(big.Int)
	anyNeg := false
	_ = w.App.ReporterKeeper.SelectorTips.Walk(w.Ctx, nil, func(k []byte, d sdkmath.LegacyDec) (bool, error) {
		tips[w.Name(sdk.AccAddress(k).String())] = Dec18(d)
		sum.Add(sum, d.BigInt())
		if d.IsNegative() {
			anyNeg = true
		}
		return false, nil
	})
	p, _ := w.App.ReporterKeeper.Params.Get(w.Ctx)
	r := Rec{"reporters": reps, "selectors": sels, "tips": tips, "sumtips18": SignedBig(sum), "anyneg": anyNeg, "maxsel": int(p.MaxSelectors), "mintrb": NumInt(p.MinTrb)}
	if tr, err := w.App.ReporterKeeper.Tracker.Get(w.Ctx); err == nil {
		t := Rec{"amt": NumInt(tr.Amount)}
		if tr.Expiration != nil {
			t["exp"] = ms(*tr.Expiration)
			t["expn"] = nsNum(*tr.Expiration)
		} else {
			t["exp"] = Num{}
			t["expn"] = Num{}
		}
		r["tracker"] = t
	}
	return r
}

func (w *World) projDispute() Rec {
	ds := []Rec{}
	_ = w.App.DisputeKeeper.Disputes.Walk(w.Ctx, nil, func(id uint64, d disputetypes.Dispute) (bool, error) {
		rec := Rec{"id": int(id), "hash": hex.EncodeToString(d.HashId)[:12], "cat": int(d.DisputeCategory), "status": int(d.DisputeStatus), "round": int(d.DisputeRound),
			"slash": NumInt(d.SlashAmount), "burn": NumInt(d.BurnAmount), "fee": NumInt(d.DisputeFee), "feetotal": NumInt(d.FeeTotal),
			"start": ms(d.DisputeStartTime), "end": ms(d.DisputeEndTime), "startn": nsNum(d.DisputeStartTime), "endn": nsNum(d.DisputeEndTime), "open": d.Open, "pending": d.PendingExecution, "block": int(d.BlockNumber),
			"rep": w.Name(d.InitialEvidence.Reporter), "prev": d.PrevDisputeIds}
		if d.VoterReward.IsNil() {
			rec["vreward"] = Num{}
		} else {
			rec["vreward"] = NumInt(d.VoterReward)
		}
		if v, err := w.App.DisputeKeeper.Votes.Get(w.Ctx, id); err == nil {
			rec["vote"] = Rec{"start": ms(v.VoteStart), "end": ms(v.VoteEnd), "startn": nsNum(v.VoteStart), "endn": nsNum(v.VoteEnd), "result": int(v.VoteResult), "executed": v.Executed}
		}
		if vc, err := w.App.DisputeKeeper.VoteCountsByGroup.Get(w.Ctx, id); err == nil {
			g := func(c disputetypes.VoteCounts) []Num { return []Num{NumU64(c.Support), NumU64(c.Against), NumU64(c.Invalid)} }
			rec["counts"] = Rec{"users": g(vc.Users), "reporters": g(vc.Reporters), "holders": g(vc.Tokenholders), "team": g(vc.Team)}
		}
		if bi, err := w.App.DisputeKeeper.BlockInfo.Get(w.Ctx, d.HashId); err == nil {
			rec["blockinfo"] = Rec{"reppower": NumInt(bi.TotalReporterPower), "tips": NumInt(bi.TotalUserTips)}
		}
		if e, err := w.App.ReporterKeeper.DisputedDelegationAmounts.Get(w.Ctx, d.HashId); err == nil {
			rec["escrow"] = w.originsRec(e)
		}
		if e, err := w.App.ReporterKeeper.FeePaidFromStake.Get(w.Ctx, d.HashId); err == nil {
			rec["feestake"] = w.originsRec(e)
		}
		ds = append(ds, rec)
		return false, nil
	})
	voters := []Rec{}
	_ = w.App.DisputeKeeper.Voter.Walk(w.Ctx, nil, func(k collections.Pair[uint64, []byte], v disputetypes.Voter) (bool, error) {
		voters = append(voters, Rec{"id": int(k.K1()), "who": w.Name(sdk.AccAddress(k.K2()).String()), "choice": int(v.Vote), "power": SignedBig(nz(v.VoterPower)),
			"rpower": SignedBig(nz(v.ReporterPower)), "hpower": SignedBig(nz(v.TokenholderPower)), "claimed": v.RewardClaimed})
		return false, nil
	})
	payers := []Rec{}
	_ = w.App.DisputeKeeper.DisputeFeePayer.Walk(w.Ctx, nil, func(k collections.Pair[uint64, []byte], p disputetypes.PayerInfo) (bool, error) {
		payers = append(payers, Rec{"id": int(k.K1()), "who": w.Name(sdk.AccAddress(k.K2()).String()), "amt": NumInt(p.Amount), "bond": p.FromBond})
		return false, nil
	})
	r := Rec{"disputes": ds, "voters": voters, "payers": payers, "bal": NumInt(w.ModBal(disputetypes.ModuleName))}
	if d, err := w.App.DisputeKeeper.Dust.Get(w.Ctx); err == nil {
		r["dust"] = NumInt(d)
	} else {
		r["dust"] = Num{}
	}
	if p, err := w.App.DisputeKeeper.Params.Get(w.Ctx); err == nil {
		r["team"] = w.Name(sdk.AccAddress(p.TeamAddress).String())
	}
	return r
}

func nz(i sdkmath.Int) *big.Int {
	if i.IsNil() {
		return new(big.Int)
	}
	return i.BigInt()
}

func (w *World) originsRec(e reportertypes.DelegationsAmounts) Rec {
	var l []Rec
	for _, o := range e.TokenOrigins {
		l = append(l, Rec{"del": w.Name(sdk.AccAddress(o.DelegatorAddress).String()), "val": w.Name(sdk.ValAddress(o.ValidatorAddress).String()), "amt": SignedBig(o.Amount.BigInt())})
	}
	if l == nil {
		l = []Rec{}
	}
	return Rec{"total": SignedBig(e.Total.BigInt()), "origins": l}
}

func (w *World) projBridge() Rec {
	claimed := []int{}
	_ = w.App.BridgeKeeper.DepositIdClaimedMap.Walk(w.Ctx, nil, func(id uint64, c bridgetypes.DepositClaimed) (bool, error) {
		if c.Claimed {
			claimed = append(claimed, int(id))
		}
		return false, nil
	})
	wid := 0
	if x, err := w.App.BridgeKeeper.WithdrawalId.Get(w.Ctx); err == nil {
		wid = int(x.Id)
	}
	cps := []Rec{}
	_ = w.App.BridgeKeeper.ValidatorCheckpointParamsMap.Walk(w.Ctx, nil, func(ts uint64, p bridgetypes.ValidatorCheckpointParams) (bool, error) {
		cps = append(cps, Rec{"ts": NumU64(ts), "thr": NumU64(p.PowerThreshold)})
		return false, nil
	})
	return Rec{"claimed": claimed, "wid": wid, "cps": cps}
}

// projHoldings: for every named user account its liquid balance, delegated stake (delegations at
// token value + unbonding entries), reward credit and reporter selection.
func (w *World) projHoldings() Rec {
	out := Rec{}
	accts := map[string]sdk.AccAddress{}
	for _, a := range w.Actors {
		accts[a.Name] = a.Addr
	}
	for _, v := range w.Vals {
		accts[v.Name] = v.Oper.Addr
	}
	for n, a := range accts {
		stake := new(big.Int)
		dels, _ := w.App.StakingKeeper.GetDelegatorDelegations(w.Ctx, a, 1000)
		for _, d := range dels {
			va, _ := sdk.ValAddressFromBech32(d.ValidatorAddress)
			if v, err := w.App.StakingKeeper.GetValidator(w.Ctx, va); err == nil {
				stake.Add(stake, v.TokensFromShares(d.Shares).TruncateInt().BigInt())
			}
		}
		ubds, _ := w.App.StakingKeeper.GetUnbondingDelegations(w.Ctx, a, 1000)
		for _, u := range ubds {
			for _, e := range u.Entries {
				stake.Add(stake, e.Balance.BigInt())
			}
		}
		credit := Signed{Mag: Num{}}
		if d, err := w.App.ReporterKeeper.SelectorTips.Get(w.Ctx, a.Bytes()); err == nil {
			credit = Dec18(d)
		}
		sel := "none"
		if s, err := w.App.ReporterKeeper.Selectors.Get(w.Ctx, a.Bytes()); err == nil {
			sel = w.Name(sdk.AccAddress(s.Reporter).String())
		}
		out[n] = Rec{"bal": NumInt(w.Bal(a)), "stake": NumBig(stake), "credit": credit, "sel": sel}
	}
	return out
}

func (w *World) projConfig() Rec {
	r := Rec{}
	if p, err := w.App.OracleKeeper.Params.Get(w.Ctx); err == nil {
		r["minstake"] = NumInt(p.MinStakeAmount)
	}
	if p, err := w.App.ReporterKeeper.Params.Get(w.Ctx); err == nil {
		r["maxsel"] = int(p.MaxSelectors)
		r["mintrb"] = NumInt(p.MinTrb)
		r["mincomm"] = Dec18(p.MinCommissionRate)
	}
	if p, err := w.App.DisputeKeeper.Params.Get(w.Ctx); err == nil {
		r["team"] = w.Name(sdk.AccAddress(p.TeamAddress).String())
	}
	if m, err := w.App.MintKeeper.Minter.Get(w.Ctx); err == nil {
		r["mintinit"] = m.Initialized
	}
	if l, err := w.App.BridgeKeeper.SnapshotLimit.Get(w.Ctx); err == nil {
		r["snaplimit"] = int(l.Limit)
	} else {
		r["snaplimit"] = -1
	}
	cl, _ := w.App.OracleKeeper.GetCyclelist(w.Ctx)
	h := sha256.New()
	for _, q := range cl {
		h.Write(q)
		h.Write([]byte{0})
	}
	r["cyclelist"] = hex.EncodeToString(h.Sum(nil))[:16]
	specs := Rec{}
	_ = w.App.RegistryKeeper.SpecRegistry.Walk(w.Ctx, nil, func(k string, d registrytypes.DataSpec) (bool, error) {
		specs[k] = Rec{"win": int(d.ReportBlockWindow), "agg": d.AggregationMethod, "vtype": d.ResponseValueType, "registrar": d.Registrar}
		return false, nil
	})
	r["specs"] = specs
	return r
}

func (w *World) projValset() Rec {
	vals := []Rec{}
	all, _ := w.App.StakingKeeper.GetAllValidators(w.Ctx)
	for _, v := range all {
		r := Rec{"op": w.Name(v.OperatorAddress), "pow": NumI64(v.GetConsensusPower(sdk.DefaultPowerReduction)), "evm": []int{}, "status": int(v.Status), "jailed": v.Jailed}
		if e, err := w.App.BridgeKeeper.OperatorToEVMAddressMap.Get(w.Ctx, v.OperatorAddress); err == nil {
			r["evm"] = bytesJ(e.EVMAddress)
			r["registered"] = true
		} else {
			r["registered"] = false
		}
		vals = append(vals, r)
	}
	setJ := func(s bridgetypes.BridgeValidatorSet) []Rec {
		out := []Rec{}
		for _, b := range s.BridgeValidatorSet {
			out = append(out, Rec{"evm": bytesJ(b.EthereumAddress), "pow": NumU64(b.Power)})
		}
		return out
	}
	r := Rec{"vals": vals, "hascur": false, "cur": []Rec{}}
	if cur, err := w.App.BridgeKeeper.BridgeValset.Get(w.Ctx); err == nil {
		r["hascur"] = true
		r["cur"] = setJ(cur)
	}
	cps := []Rec{}
	_ = w.App.BridgeKeeper.ValidatorCheckpointIdxMap.Walk(w.Ctx, nil, func(idx uint64, ct bridgetypes.CheckpointTimestamp) (bool, error) {
		c := Rec{"idx": int(idx), "ts": NumU64(ct.Timestamp)}
		if p, err := w.App.BridgeKeeper.ValidatorCheckpointParamsMap.Get(w.Ctx, ct.Timestamp); err == nil {
			c["thr"] = NumU64(p.PowerThreshold)
			c["hash"] = hex.EncodeToString(p.ValsetHash)
			c["cp"] = hex.EncodeToString(p.Checkpoint)
			c["pts"] = NumU64(p.Timestamp)
		}
		if s, err := w.App.BridgeKeeper.BridgeValsetByTimestampMap.Get(w.Ctx, ct.Timestamp); err == nil {
			c["set"] = setJ(s)
			// hash / checkpoint recomputed from the STORED set with the (C15-validated) encoders, in a throw-away context
			cctx, _ := w.Ctx.CacheContext()
			if _, h, err := w.App.BridgeKeeper.EncodeAndHashValidatorSet(cctx, &s); err == nil {
				c["rehash"] = hex.EncodeToString(h)
				if p, err := w.App.BridgeKeeper.ValidatorCheckpointParamsMap.Get(w.Ctx, ct.Timestamp); err == nil {
					if cp, err := w.App.BridgeKeeper.CalculateValidatorSetCheckpoint(cctx, p.PowerThreshold, ct.Timestamp, h); err == nil {
						c["recp"] = hex.EncodeToString(cp)
					}
				}
			}
		} else {
			c["set"] = []Rec{}
		}
		if sg, err := w.App.BridgeKeeper.BridgeValsetSignaturesMap.Get(w.Ctx, ct.Timestamp); err == nil {
			f := []bool{}
			for _, s := range sg.Signatures {
				f = append(f, len(s) > 0)
			}
			c["filled"] = f
		} else {
			c["filled"] = []bool{}
		}
		if ix, err := w.App.BridgeKeeper.ValsetTimestampToIdxMap.Get(w.Ctx, ct.Timestamp); err == nil {
			c["tsidx"] = int(ix.Index)
		} else {
			c["tsidx"] = -1
		}
		cps = append(cps, c)
		return false, nil
	})
	r["cps"] = cps
	if li, err := w.App.BridgeKeeper.LatestCheckpointIdx.Get(w.Ctx); err == nil {
		r["latest"] = int(li.Index)
	} else {
		r["latest"] = -1
	}
	return r
}
