// Package h drives the real tellor-io/layer application (production wiring, app.New)
// and projects its stores to the abstract state of the TLA+ specifications in /verif/spec.
// It contains NO reference model: it only executes the real code and records what happened.
package h

import (
	"encoding/json"
	"fmt"
	"os"
	"runtime/debug"
	"time"

	abci "github.com/cometbft/cometbft/abci/types"
	cmtproto "github.com/cometbft/cometbft/proto/tendermint/types"
	dbm "github.com/cosmos/cosmos-db"
	"github.com/tellor-io/layer/app"
	_ "github.com/tellor-io/layer/app/config"

	"cosmossdk.io/log"
	sdkmath "cosmossdk.io/math"
	storetypes "cosmossdk.io/store/types"

	"github.com/cosmos/cosmos-sdk/baseapp"
	codectypes "github.com/cosmos/cosmos-sdk/codec/types"
	cryptocodec "github.com/cosmos/cosmos-sdk/crypto/codec"
	"github.com/cosmos/cosmos-sdk/crypto/keys/ed25519"
	"github.com/cosmos/cosmos-sdk/crypto/keys/secp256k1"
	simtestutil "github.com/cosmos/cosmos-sdk/testutil/sims"
	sdk "github.com/cosmos/cosmos-sdk/types"
	authtypes "github.com/cosmos/cosmos-sdk/x/auth/types"
	banktypes "github.com/cosmos/cosmos-sdk/x/bank/types"
	stakingtypes "github.com/cosmos/cosmos-sdk/x/staking/types"
)

const Denom = "loya"

// Actor is a user account with a deterministic key.
type Actor struct {
	Name string
	Priv *secp256k1.PrivKey
	Addr sdk.AccAddress
}

func (a Actor) String() string { return a.Addr.String() }

// Val is a genesis validator: operator account + consensus key.
type Val struct {
	Name     string
	Oper     Actor
	ValAddr  sdk.ValAddress
	ConsPriv *ed25519.PrivKey
	Tokens   sdkmath.Int
}

type ChainOpts struct {
	NumVals       int
	ValTokens     []int64 // loya per validator (default 1000 TRB)
	NumActors     int
	ActorBalance  int64 // loya (default 10000 TRB)
	MaxValidators uint32
	UnbondingTime time.Duration
	GenesisTime   time.Time
	RegisterOnlyFirst bool
	VoteExtEnable     int64 // consensus param Abci.VoteExtensionsEnableHeight (0 = not set)
	RegisterEVM   bool // register an EVM address for every validator at genesis+ (assumption A-1)
	GenesisHook   func(gs map[string]json.RawMessage, c *Chain)
	HomeDir       string
	IAVLCache     int
	Signed        bool // messages of known accounts travel as really signed transactions through the installed ante handler
}

type Chain struct {
	App    *app.App
	Ctx    sdk.Context // context of the block being executed (uncached: writes go to the root store)
	Height int64
	Time   time.Time
	Vals   []*Val
	Actors []*Actor
	Names  map[string]string // bech32 (acc or val) -> short name
	home   string
	// result of the automatic phases of the current block
	LastAppHash []byte
	Opts        ChainOpts
}

func init() {
	sdk.DefaultBondDenom = Denom
}

func mkActor(name string) *Actor {
	priv := secp256k1.GenPrivKeyFromSecret([]byte("verif-actor-" + name))
	return &Actor{Name: name, Priv: priv, Addr: sdk.AccAddress(priv.PubKey().Address())}
}

// NewChain builds the production app on a MemDB, runs InitChain with a deterministic genesis
// and the first block through the real ABCI entry points, then switches to keeper mode.
func NewChain(o ChainOpts) (*Chain, error) {
	if o.NumVals == 0 {
		o.NumVals = 1
	}
	if o.ActorBalance == 0 {
		o.ActorBalance = 10_000_000_000
	}
	if o.GenesisTime.IsZero() {
		o.GenesisTime = time.Date(2024, 1, 1, 0, 0, 0, 0, time.UTC)
	}
	home := o.HomeDir
	if home == "" {
		var err error
		home, err = os.MkdirTemp("", "verif-home-")
		if err != nil {
			return nil, err
		}
	}
	c := &Chain{Names: map[string]string{}, home: home, Opts: o}
	opts := []func(*baseapp.BaseApp){baseapp.SetChainID("layer")}
	if o.IAVLCache > 0 {
		opts = append(opts, baseapp.SetIAVLCacheSize(o.IAVLCache))
	}
	a := app.New(log.NewNopLogger(), dbm.NewMemDB(), nil, true, simtestutil.NewAppOptionsWithFlagHome(home), opts...)
	c.App = a
	gs := a.BasicModuleManager.DefaultGenesis(a.AppCodec())

	var genAccs []authtypes.GenesisAccount
	var balances []banktypes.Balance
	supply := sdk.NewCoins()
	for i := 0; i < o.NumActors; i++ {
		ac := mkActor(fmt.Sprintf("a%d", i))
		c.Actors = append(c.Actors, ac)
		c.Names[ac.Addr.String()] = ac.Name
		genAccs = append(genAccs, authtypes.NewBaseAccount(ac.Addr, ac.Priv.PubKey(), uint64(len(genAccs)), 0))
		coins := sdk.NewCoins(sdk.NewInt64Coin(Denom, o.ActorBalance))
		balances = append(balances, banktypes.Balance{Address: ac.Addr.String(), Coins: coins})
		supply = supply.Add(coins...)
	}
	var validators []stakingtypes.Validator
	var delegations []stakingtypes.Delegation
	bonded := sdkmath.ZeroInt()
	for i := 0; i < o.NumVals; i++ {
		name := fmt.Sprintf("v%d", i)
		op := mkActor(name)
		cons := ed25519.GenPrivKeyFromSecret([]byte("verif-cons-" + name))
		tok := int64(1_000_000_000)
		if i < len(o.ValTokens) {
			tok = o.ValTokens[i]
		}
		v := &Val{Name: name, Oper: *op, ValAddr: sdk.ValAddress(op.Addr), ConsPriv: cons, Tokens: sdkmath.NewInt(tok)}
		c.Vals = append(c.Vals, v)
		c.Names[op.Addr.String()] = name
		c.Names[v.ValAddr.String()] = name
		genAccs = append(genAccs, authtypes.NewBaseAccount(op.Addr, op.Priv.PubKey(), uint64(len(genAccs)), 0))
		coins := sdk.NewCoins(sdk.NewInt64Coin(Denom, o.ActorBalance))
		balances = append(balances, banktypes.Balance{Address: op.Addr.String(), Coins: coins})
		supply = supply.Add(coins...)
		pkAny, err := codectypes.NewAnyWithValue(cons.PubKey())
		if err != nil {
			return nil, err
		}
		validators = append(validators, stakingtypes.Validator{
			OperatorAddress: v.ValAddr.String(), ConsensusPubkey: pkAny, Status: stakingtypes.Bonded,
			Tokens: v.Tokens, DelegatorShares: sdkmath.LegacyNewDecFromInt(v.Tokens),
			UnbondingTime:     time.Unix(0, 0).UTC(),
			Commission:        stakingtypes.NewCommission(sdkmath.LegacyZeroDec(), sdkmath.LegacyOneDec(), sdkmath.LegacyOneDec()),
			MinSelfDelegation: sdkmath.ZeroInt(),
		})
		delegations = append(delegations, stakingtypes.NewDelegation(op.Addr.String(), v.ValAddr.String(), sdkmath.LegacyNewDecFromInt(v.Tokens)))
		bonded = bonded.Add(v.Tokens)
	}
	gs[authtypes.ModuleName] = a.AppCodec().MustMarshalJSON(authtypes.NewGenesisState(authtypes.DefaultParams(), genAccs))
	var sg stakingtypes.GenesisState
	a.AppCodec().MustUnmarshalJSON(gs[stakingtypes.ModuleName], &sg)
	sg.Validators = validators
	sg.Delegations = delegations
	sg.Params.BondDenom = Denom
	if o.MaxValidators > 0 {
		sg.Params.MaxValidators = o.MaxValidators
	}
	if o.UnbondingTime > 0 {
		sg.Params.UnbondingTime = o.UnbondingTime
	}
	gs[stakingtypes.ModuleName] = a.AppCodec().MustMarshalJSON(&sg)
	bcoins := sdk.NewCoins(sdk.NewCoin(Denom, bonded))
	balances = append(balances, banktypes.Balance{Address: authtypes.NewModuleAddress(stakingtypes.BondedPoolName).String(), Coins: bcoins})
	supply = supply.Add(bcoins...)
	gs[banktypes.ModuleName] = a.AppCodec().MustMarshalJSON(banktypes.NewGenesisState(banktypes.DefaultGenesisState().Params, balances, supply, []banktypes.Metadata{}, []banktypes.SendEnabled{}))
	if o.GenesisHook != nil {
		o.GenesisHook(gs, c)
	}
	stateBytes, err := json.Marshal(gs)
	if err != nil {
		return nil, err
	}
	var cmtVals []abci.ValidatorUpdate
	for _, v := range c.Vals {
		pk, err := cryptocodec.ToCmtProtoPublicKey(v.ConsPriv.PubKey())
		if err != nil {
			return nil, err
		}
		cmtVals = append(cmtVals, abci.ValidatorUpdate{PubKey: pk, Power: v.Tokens.Quo(sdk.DefaultPowerReduction).Int64()})
	}
	cp := simtestutil.DefaultConsensusParams
	if o.VoteExtEnable > 0 {
		cpc := *cp
		cpc.Abci = &cmtproto.ABCIParams{VoteExtensionsEnableHeight: o.VoteExtEnable}
		cp = &cpc
	}
	if _, err := a.InitChain(&abci.RequestInitChain{
		ChainId: "layer", Time: o.GenesisTime, Validators: cmtVals, ConsensusParams: cp, AppStateBytes: stateBytes, InitialHeight: 1,
	}); err != nil {
		return nil, fmt.Errorf("InitChain: %w", err)
	}
	c.Height = 1
	c.Time = o.GenesisTime
	if _, err := a.FinalizeBlock(&abci.RequestFinalizeBlock{Height: 1, Time: c.Time, Hash: []byte("h1")}); err != nil {
		return nil, fmt.Errorf("FinalizeBlock(1): %w", err)
	}
	if _, err := a.Commit(); err != nil {
		return nil, fmt.Errorf("Commit(1): %w", err)
	}
	c.Ctx = c.newCtx()
	if o.RegisterEVM {
		for i, v := range c.Vals {
			if o.RegisterOnlyFirst && i > 0 {
				break
			}
			evm := make([]byte, 20)
			evm[0] = 0xE0
			evm[19] = byte(i + 1)
			if err := a.BridgeKeeper.SetEVMAddressByOperator(c.Ctx, v.ValAddr.String(), evm); err != nil {
				return nil, err
			}
		}
	}
	return c, nil
}

func (c *Chain) Close() {
	if c.Opts.HomeDir == "" {
		os.RemoveAll(c.home)
	}
}

func (c *Chain) newCtx() sdk.Context {
	hdr := cmtproto.Header{ChainID: "layer", Height: c.Height, Time: c.Time}
	ctx := c.App.BaseApp.NewUncachedContext(false, hdr)
	return ctx.WithBlockGasMeter(storetypes.NewInfiniteGasMeter()).WithGasMeter(storetypes.NewInfiniteGasMeter()).
		WithEventManager(sdk.NewEventManager()).WithHeaderHash([]byte(fmt.Sprintf("hash-%d", c.Height)))
}

// PhaseResult records the outcome of an automatic phase exactly as baseapp would see it.
type PhaseResult struct {
	Ok    bool
	Err   string
	Panic bool
}

func guard(f func() error) (r PhaseResult) {
	defer func() {
		if p := recover(); p != nil {
			r = PhaseResult{Ok: false, Err: fmt.Sprintf("panic: %v\n%s", p, debug.Stack()), Panic: true}
		}
	}()
	if err := f(); err != nil {
		if os.Getenv("VERIF_DEBUG") != "" {
			fmt.Fprintf(os.Stderr, "DEBUG error: %+v\n", err)
		}
		return PhaseResult{Ok: false, Err: err.Error()}
	}
	return PhaseResult{Ok: true}
}

// BeginBlock advances height/time and runs the production BeginBlocker (module order of app.go).
func (c *Chain) BeginBlock(dt time.Duration) PhaseResult {
	c.Height++
	c.Time = c.Time.Add(dt)
	c.Ctx = c.newCtx()
	return guard(func() error {
		_, err := c.App.BeginBlocker(c.Ctx)
		return err
	})
}

// EndBlock runs the production EndBlocker and commits the multistore (app hash recorded).
func (c *Chain) EndBlock() PhaseResult {
	r := guard(func() error {
		_, err := c.App.EndBlocker(c.Ctx)
		return err
	})
	if r.Ok {
		id := c.App.CommitMultiStore().Commit()
		c.LastAppHash = id.Hash
	}
	return r
}

// Block = BeginBlock + EndBlock with no transactions.
func (c *Chain) Block(dt time.Duration) (PhaseResult, PhaseResult) {
	b := c.BeginBlock(dt)
	if !b.Ok {
		return b, PhaseResult{}
	}
	return b, c.EndBlock()
}

// Exec runs one message through ValidateBasic and the production message router inside a cache
// context that is written back only on success (baseapp's per-tx atomicity). Panics are recovered
// (baseapp's runTx does the same) and reported.
// signerOf returns the account whose signature the message needs (as the codec derives it from the message's signer
// annotation), if it is a single account whose key the harness holds.
func (c *Chain) signerOf(msg sdk.Msg) *Actor {
	signers, _, err := c.App.AppCodec().GetMsgV1Signers(msg)
	if err != nil || len(signers) != 1 {
		return nil
	}
	for _, a := range c.Actors {
		if string(a.Addr.Bytes()) == string(signers[0]) {
			return a
		}
	}
	for _, v := range c.Vals {
		if string(v.Oper.Addr.Bytes()) == string(signers[0]) {
			a := v.Oper
			return &a
		}
	}
	return nil
}

func (c *Chain) Exec(msg sdk.Msg) (resp *sdk.Result, res PhaseResult) {
	res = guard(func() error {
		if c.Opts.Signed {
			// signed mode: the message as a transaction signed by the account its signer annotation names, through the
			// ante handler the production app has installed (signature and sequence checks, the stake-change guard, ...);
			// as in baseapp, what the ante handler writes stays even when the message fails afterwards
			if a := c.signerOf(msg); a != nil {
				tx, err := c.SignedTx(a, 1_000_000_000, msg)
				if err != nil {
					return err
				}
				bz, err := c.App.TxConfig().TxEncoder()(tx)
				if err != nil {
					return err
				}
				actx, awrite := c.Ctx.CacheContext()
				if _, err := c.App.AnteHandler()(actx.WithTxBytes(bz), tx, false); err != nil {
					return err
				}
				awrite()
			}
		}
		if vb, ok := msg.(sdk.HasValidateBasic); ok {
			if err := vb.ValidateBasic(); err != nil {
				return err
			}
		}
		h := c.App.MsgServiceRouter().Handler(msg)
		if h == nil {
			return fmt.Errorf("no handler for %T", msg)
		}
		cctx, write := c.Ctx.CacheContext()
		r, err := h(cctx, msg)
		if err != nil {
			return err
		}
		write()
		c.Ctx.EventManager().EmitEvents(cctx.EventManager().Events())
		resp = r
		return nil
	})
	return resp, res
}

// ExecAll runs several messages as ONE transaction (all-or-nothing).
func (c *Chain) ExecAll(msgs ...sdk.Msg) (res PhaseResult) {
	return guard(func() error {
		cctx, write := c.Ctx.CacheContext()
		for _, msg := range msgs {
			if vb, ok := msg.(sdk.HasValidateBasic); ok {
				if err := vb.ValidateBasic(); err != nil {
					return err
				}
			}
			h := c.App.MsgServiceRouter().Handler(msg)
			if h == nil {
				return fmt.Errorf("no handler for %T", msg)
			}
			if _, err := h(cctx, msg); err != nil {
				return err
			}
		}
		write()
		return nil
	})
}

// Name maps an address string to its short actor name (or returns the input).
func (c *Chain) Name(addr string) string {
	if n, ok := c.Names[addr]; ok {
		return n
	}
	return addr
}

func (c *Chain) AddActor(name string, balance int64) *Actor {
	ac := mkActor(name)
	c.Actors = append(c.Actors, ac)
	c.Names[ac.Addr.String()] = name
	if balance > 0 {
		c.Fund(ac.Addr, balance)
	}
	return ac
}

// Fund moves coins from the richest genesis validator operator; total supply is unchanged.
func (c *Chain) Fund(to sdk.AccAddress, amt int64) {
	from := c.Vals[0].Oper.Addr
	if err := c.App.BankKeeper.SendCoins(c.Ctx, from, to, sdk.NewCoins(sdk.NewInt64Coin(Denom, amt))); err != nil {
		panic(err)
	}
}

func ModuleAddr(name string) sdk.AccAddress { return authtypes.NewModuleAddress(name) }

func (c *Chain) Bal(addr sdk.AccAddress) sdkmath.Int {
	return c.App.BankKeeper.GetBalance(c.Ctx, addr, Denom).Amount
}

func (c *Chain) ModBal(name string) sdkmath.Int { return c.Bal(ModuleAddr(name)) }

func (c *Chain) Supply() sdkmath.Int { return c.App.BankKeeper.GetSupply(c.Ctx, Denom).Amount }
