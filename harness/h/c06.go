package h

import (
	"bufio"
	"encoding/json"
	"fmt"
	"math/big"
	"math/rand"
	"os"
	"strings"

	oracletypes "github.com/tellor-io/layer/x/oracle/types"
)

type c06Report struct {
	Rep string `json:"rep"`
	Raw string `json:"raw"`
	Pow uint64 `json:"pow"`
}

type C06Stats struct {
	Cases        int            `json:"cases"`
	Lines        int            `json:"lines"`
	TieCases     int            `json:"tie_cases"`
	HalfBoundary int            `json:"half_boundary_cases"`
	BigCases     int            `json:"big_cases"`
	Events       map[string]int `json:"events"`
	Samples      []any          `json:"samples"`
}

func permutations(n int, max int, rng *rand.Rand) [][]int {
	var out [][]int
	if n <= 4 && (max <= 0 || fact(n) <= max) {
		var rec func(cur []int, used []bool)
		rec = func(cur []int, used []bool) {
			if len(cur) == n {
				out = append(out, append([]int{}, cur...))
				return
			}
			for i := 0; i < n; i++ {
				if !used[i] {
					used[i] = true
					rec(append(cur, i), used)
					used[i] = false
				}
			}
		}
		rec(nil, make([]bool, n))
		return out
	}
	id := make([]int, n)
	for i := range id {
		id[i] = i
	}
	out = append(out, append([]int{}, id...))
	rev := make([]int, n)
	for i := range rev {
		rev[i] = n - 1 - i
	}
	out = append(out, rev)
	for len(out) < max {
		out = append(out, rng.Perm(n))
	}
	return out
}

func fact(n int) int {
	r := 1
	for i := 2; i <= n; i++ {
		r *= i
	}
	return r
}

// RunC06 replays TLC-enumerated report sets (and seeded large random ones) into the real
// Keeper.WeightedMedian / Keeper.WeightedMode in every / many arrival orders and records results.
func RunC06(casesPath, tracePath, statsPath string, seed int64, thorough bool) error {
	rng := rand.New(rand.NewSource(seed))
	c, err := NewChain(ChainOpts{NumVals: 1, RegisterEVM: true})
	if err != nil {
		return err
	}
	defer c.Close()
	tr, err := NewTrace(tracePath)
	if err != nil {
		return err
	}
	st := &C06Stats{}
	var cases [][]c06Report
	f, err := os.Open(casesPath)
	if err != nil {
		return err
	}
	sc := bufio.NewScanner(f)
	sc.Buffer(make([]byte, 1<<20), 1<<26)
	for sc.Scan() {
		if strings.TrimSpace(sc.Text()) == "" {
			continue
		}
		var cs []c06Report
		if err := json.Unmarshal(sc.Bytes(), &cs); err != nil {
			return fmt.Errorf("case parse: %w", err)
		}
		cases = append(cases, cs)
	}
	f.Close()
	// equal-power ties between accepted spellings of one number and between different numbers
	for _, pr := range [][2]string{{"0a", "0A"}, {"0x0a", "0a"}, {"0X0A", "0x0a"}, {"a", "0a"}, {"abcdef", "ABCDEF"}, {"01", "02"}} {
		cases = append(cases, []c06Report{{Rep: "r1", Raw: pr[0], Pow: 2}, {Rep: "r2", Raw: pr[1], Pow: 2}})
		cases = append(cases, []c06Report{{Rep: "r1", Raw: pr[0], Pow: 1}, {Rep: "r2", Raw: pr[1], Pow: 2}, {Rep: "r3", Raw: pr[0], Pow: 1}})
	}
	// values of different widths whose numeric order is not their string order (leading zeros, padded words)
	w64 := func(v uint64) string { return fmt.Sprintf("%064x", v) }
	for _, tri := range [][3]string{{"0064", "c8", "012c"}, {"00000005", "7", "0009"}, {w64(10), "ff", w64(20) + w64(0)[:2]}, {"000a", "9", "00b"}, {"0x0064", "c8", "0X012C"}} {
		cases = append(cases, []c06Report{{Rep: "r1", Raw: tri[0], Pow: 1}, {Rep: "r2", Raw: tri[1], Pow: 1}, {Rep: "r3", Raw: tri[2], Pow: 1}})
		cases = append(cases, []c06Report{{Rep: "r1", Raw: tri[0], Pow: 2}, {Rep: "r2", Raw: tri[1], Pow: 1}, {Rep: "r3", Raw: tri[2], Pow: 2}, {Rep: "r4", Raw: tri[1], Pow: 1}})
	}
	nEnum := len(cases)
	// seeded large inputs: many reporters, huge powers (median), long values, equal numeric values spelled differently
	nBig := 12
	if thorough {
		nBig = 60
	}
	for i := 0; i < nBig; i++ {
		n := 1 + rng.Intn(40)
		if thorough && i%5 == 0 {
			n = 100 + rng.Intn(100)
		}
		var cs []c06Report
		nvals := 1 + rng.Intn(4)
		vals := make([]string, nvals)
		for j := range vals {
			vals[j] = randHex(rng, 1+rng.Intn(64))
		}
		remaining := uint64(1) << 62
		heavy := i%3 == 2
		if heavy {
			// total power between 2^62 and 2^63 (a report's power is a uint64): one reporter holds 2^62 or more
			remaining = uint64(1)<<63 - 1
		}
		for j := 0; j < n; j++ {
			var raw string
			switch rng.Intn(3) {
			case 0:
				raw = vals[rng.Intn(nvals)]
			case 1:
				raw = respell(rng, vals[rng.Intn(nvals)])
			default:
				raw = randHex(rng, 1+rng.Intn(64))
			}
			var p uint64
			switch rng.Intn(4) {
			case 0:
				p = 1
			case 1:
				p = 1 + uint64(rng.Intn(1000))
			case 2:
				p = 1 + uint64(rng.Int63n(1<<40))
			default:
				p = 1 + uint64(rng.Int63n(int64(remaining/uint64(n-j)/2+1)))
			}
			if heavy && j == n/2 {
				p = uint64(1)<<62 + uint64(rng.Intn(1000))
			}
			if p >= remaining {
				p = 1
			}
			remaining -= p
			cs = append(cs, c06Report{Rep: fmt.Sprintf("b%d", j), Raw: raw, Pow: p})
		}
		cases = append(cases, cs)
	}
	for ci, cs := range cases {
		big_ := ci >= nEnum
		n := len(cs)
		maxPerm := 0
		if n > 4 {
			maxPerm = 4
		} else if n == 4 && !thorough {
			maxPerm = 8
		}
		perms := permutations(n, maxPerm, rng)
		if n == 4 && maxPerm == 8 {
			// sample 8 of the 24
			all := permutations(4, 0, rng)
			rng.Shuffle(len(all), func(i, j int) { all[i], all[j] = all[j], all[i] })
			perms = all[:8]
		}
		st.Cases++
		if big_ {
			st.BigCases++
		}
		if hasTie(cs) {
			st.TieCases++
		}
		if hasHalf(cs) {
			st.HalfBoundary++
		}
		for _, method := range []string{"Median", "Mode"} {
			if method == "Mode" && big_ {
				// the real WeightedMode loops `power` times; keep its cost bounded (see DESIGN §3)
				capPow(cs, 3000)
			}
			reps := 1
			if method == "Mode" {
				reps = 3 // Go randomises map iteration per range: sample it
			}
			for _, pm := range perms {
				for k := 0; k < reps; k++ {
					reports := make([]oracletypes.MicroReport, n)
					rsj := make([]Rec, n)
					for i, src := range pm {
						r := cs[src]
						reports[i] = oracletypes.MicroReport{Reporter: r.Rep, Power: r.Pow, QueryId: []byte("q"), Value: r.Raw, BlockNumber: uint64(10 + src),
							AggregateMethod: map[string]string{"Median": "weighted-median", "Mode": "weighted-mode"}[method]}
						v, _ := new(big.Int).SetString(stripHexPrefix(r.Raw), 16)
						rsj[i] = Rec{"rep": r.Rep, "raw": r.Raw, "val": NumBig(v), "pow": NumU64(r.Pow)}
					}
					var agg *oracletypes.Aggregate
					res := guard(func() error {
						var e error
						if method == "Median" {
							agg, e = c.App.OracleKeeper.WeightedMedian(c.Ctx, reports, 7)
						} else {
							agg, e = c.App.OracleKeeper.WeightedMode(c.Ctx, reports, 7)
						}
						return e
					})
					rec := Rec{"ev": method, "case": fmt.Sprintf("%s-%d", method, ci), "rs": rsj, "ok": res.Ok && agg != nil}
					if res.Ok && agg != nil {
						v, okp := new(big.Int).SetString(stripHexPrefix(agg.AggregateValue), 16)
						if !okp {
							v = big.NewInt(0)
						}
						var rl []Rec
						for _, ar := range agg.Reporters {
							rl = append(rl, Rec{"rep": ar.Reporter, "pow": NumU64(ar.Power)})
						}
						rec["agg"] = Rec{"raw": agg.AggregateValue, "val": NumBig(v), "power": NumU64(agg.ReporterPower),
							"reporter": agg.AggregateReporter, "index": int(agg.AggregateReportIndex), "reporters": rl}
					} else {
						rec["err"] = res.Err
					}
					tr.Emit(rec)
					if len(st.Samples) < 3 || (big_ && len(st.Samples) < 5) {
						st.Samples = append(st.Samples, rec)
					}
				}
			}
		}
	}
	st.Lines = tr.N
	st.Events = tr.Counts
	if err := tr.Close(); err != nil {
		return err
	}
	return WriteJSON(statsPath, st)
}

func capPow(cs []c06Report, m uint64) {
	for i := range cs {
		if cs[i].Pow > m {
			cs[i].Pow = 1 + cs[i].Pow%m
		}
	}
}

func randHex(rng *rand.Rand, nbytes int) string {
	const d = "0123456789abcdef"
	var sb strings.Builder
	for i := 0; i < 2*nbytes; i++ {
		sb.WriteByte(d[rng.Intn(16)])
	}
	return sb.String()
}

// respell returns a string with the same base-16 value but a different spelling (leading zero, upper case).
func respell(rng *rand.Rand, s string) string {
	switch rng.Intn(3) {
	case 0:
		return "00" + s
	case 1:
		return strings.ToUpper(s)
	default:
		return s
	}
}

func hasTie(cs []c06Report) bool {
	w := map[string]uint64{}
	for _, r := range cs {
		w[r.Raw] += r.Pow
	}
	var max uint64
	cnt := 0
	for _, x := range w {
		if x > max {
			max, cnt = x, 1
		} else if x == max {
			cnt++
		}
	}
	return cnt > 1
}

func hasHalf(cs []c06Report) bool {
	// some prefix of the value-sorted reports carries exactly half the power (statistics only)
	tot := new(big.Int)
	type vp struct {
		v *big.Int
		p uint64
	}
	var l []vp
	for _, r := range cs {
		v, _ := new(big.Int).SetString(stripHexPrefix(r.Raw), 16)
		l = append(l, vp{v, r.Pow})
		tot.Add(tot, new(big.Int).SetUint64(r.Pow))
	}
	for _, a := range l {
		s := new(big.Int)
		for _, b := range l {
			if b.v.Cmp(a.v) <= 0 {
				s.Add(s, new(big.Int).SetUint64(b.p))
			}
		}
		if new(big.Int).Mul(s, big.NewInt(2)).Cmp(tot) == 0 {
			return true
		}
	}
	return false
}

func stripHexPrefix(s string) string {
	if len(s) >= 2 && s[0] == '0' && (s[1] == 'x' || s[1] == 'X') {
		return s[2:]
	}
	return s
}
