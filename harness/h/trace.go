package h

import (
	"bufio"
	"encoding/json"
	"math/big"
	"os"
	"sort"

	sdkmath "cosmossdk.io/math"
)

// Num is a non-negative integer as the big-number backend of the specs reads it:
// little-endian limbs in base 10^4, canonical (zero is []).
type Num []int

var limbBase = big.NewInt(10000)

// NumBig encodes a non-negative big.Int. A negative value cannot be a Num; callers that may see one
// must log the sign separately (see Signed).
func NumBig(x *big.Int) Num {
	if x.Sign() < 0 {
		panic("NumBig: negative")
	}
	out := Num{}
	v := new(big.Int).Set(x)
	m := new(big.Int)
	for v.Sign() > 0 {
		v.DivMod(v, limbBase, m)
		out = append(out, int(m.Int64()))
	}
	return out
}

func NumInt(x sdkmath.Int) Num  { return NumBig(x.BigInt()) }
func NumU64(x uint64) Num       { return NumBig(new(big.Int).SetUint64(x)) }
func NumI64(x int64) Num        { return NumBig(big.NewInt(x)) }
func NumStr(dec string) Num     { v, _ := new(big.Int).SetString(dec, 10); return NumBig(v) }
func (n Num) MarshalJSON() ([]byte, error) {
	if len(n) == 0 {
		return []byte("[]"), nil
	}
	return json.Marshal([]int(n))
}

// Signed is a possibly negative quantity: neg flag + magnitude.
type Signed struct {
	Neg bool `json:"neg"`
	Mag Num  `json:"mag"`
}

func SignedBig(x *big.Int) Signed {
	return Signed{Neg: x.Sign() < 0, Mag: NumBig(new(big.Int).Abs(x))}
}

// Dec18 encodes a LegacyDec as the integer value*10^18 (sign separately).
func Dec18(d sdkmath.LegacyDec) Signed { return SignedBig(d.BigInt()) }

// Rec is one trace line. Keys are sorted by encoding/json (map), which keeps traces reproducible.
type Rec map[string]any

type Trace struct {
	f *os.File
	w *bufio.Writer
	N int
	// per-event counters for evidence
	Counts map[string]int
}

func NewTrace(path string) (*Trace, error) {
	f, err := os.Create(path)
	if err != nil {
		return nil, err
	}
	return &Trace{f: f, w: bufio.NewWriterSize(f, 1<<20), Counts: map[string]int{}}, nil
}

func (t *Trace) Emit(r Rec) {
	b, err := json.Marshal(r)
	if err != nil {
		panic(err)
	}
	t.w.Write(b)
	t.w.WriteByte('\n')
	t.N++
	if ev, ok := r["ev"].(string); ok {
		t.Counts[ev]++
	}
}

func (t *Trace) Close() error {
	if err := t.w.Flush(); err != nil {
		return err
	}
	return t.f.Close()
}

func SortedKeys[V any](m map[string]V) []string {
	ks := make([]string, 0, len(m))
	for k := range m {
		ks = append(ks, k)
	}
	sort.Strings(ks)
	return ks
}

// WriteJSON writes v as indented JSON.
func WriteJSON(path string, v any) error {
	b, err := json.MarshalIndent(v, "", " ")
	if err != nil {
		return err
	}
	return os.WriteFile(path, b, 0o644)
}

// NumToInt converts a uint64 to an sdk math.Int.
func NumToInt(x uint64) sdkmath.Int { return sdkmath.NewIntFromUint64(x) }
