package h

import (
	"bufio"
	"encoding/json"
	"fmt"
	"os"
	"strings"
	"time"

	rante "github.com/tellor-io/layer/x/reporter/ante"
	reportertypes "github.com/tellor-io/layer/x/reporter/types"
	"google.golang.org/protobuf/proto"

	sdkmath "cosmossdk.io/math"

	sdk "github.com/cosmos/cosmos-sdk/types"
	banktypes "github.com/cosmos/cosmos-sdk/x/bank/types"
	stakingtypes "github.com/cosmos/cosmos-sdk/x/staking/types"
)

type mockTx struct{ msgs []sdk.Msg }

func (m mockTx) GetMsgs() []sdk.Msg                      { return m.msgs }
func (m mockTx) GetMsgsV2() ([]proto.Message, error)     { return nil, nil }
func (m mockTx) ValidateBasic() error                    { return nil }

type c18Msg struct {
	Kind string `json:"kind"`
	Amt  int64  `json:"amt"`
}
type c18Case struct {
	Base   int64    `json:"base"`
	Bonded int64    `json:"bonded"`
	Tx     []c18Msg `json:"tx"`
}

// RunC18 replays TLC-enumerated (baseline, bonded total, transaction) cases through the real
// TrackStakeChangesDecorator of the production app and records accept / reject.
func RunC18(casesPath, tracePath, statsPath string, seed int64) error {
	c, err := NewChain(ChainOpts{NumVals: 1, NumActors: 1, ValTokens: []int64{50_000_000}, ActorBalance: 1_000_000_000_000, RegisterEVM: true})
	if err != nil {
		return err
	}
	defer c.Close()
	tr, err := NewTrace(tracePath)
	if err != nil {
		return err
	}
	f, err := os.Open(casesPath)
	if err != nil {
		return err
	}
	sc := bufio.NewScanner(f)
	sc.Buffer(make([]byte, 1<<20), 1<<26)
	dec := rante.NewTrackStakeChangesDecorator(c.App.ReporterKeeper, c.App.StakingKeeper)
	rich := c.Actors[0]
	v := c.Vals[0]
	st := map[string]any{}
	n, admitted := 0, 0
	var samples []any
	for sc.Scan() {
		if strings.TrimSpace(sc.Text()) == "" {
			continue
		}
		var cs c18Case
		if err := json.Unmarshal(sc.Bytes(), &cs); err != nil {
			return err
		}
		// reach the requested bonded total with real delegations on the real staking keeper
		cur, _ := c.App.StakingKeeper.TotalBondedTokens(c.Ctx)
		delta := sdkmath.NewInt(cs.Bonded).Sub(cur)
		if delta.IsPositive() {
			if _, r := c.Exec(stakingtypes.NewMsgDelegate(rich.Addr.String(), v.ValAddr.String(), sdk.NewCoin(Denom, delta))); !r.Ok {
				return fmt.Errorf("setup delegate: %s", r.Err)
			}
		} else if delta.IsNegative() {
			if _, r := c.Exec(stakingtypes.NewMsgUndelegate(rich.Addr.String(), v.ValAddr.String(), sdk.NewCoin(Denom, delta.Neg()))); !r.Ok {
				// the genesis self-delegation belongs to the operator
				if _, r2 := c.Exec(stakingtypes.NewMsgUndelegate(v.Oper.Addr.String(), v.ValAddr.String(), sdk.NewCoin(Denom, delta.Neg()))); !r2.Ok {
					return fmt.Errorf("setup undelegate: %s / %s", r.Err, r2.Err)
				}
			}
		}
		exp := c.Time.Add(time.Hour)
		if err := c.App.ReporterKeeper.Tracker.Set(c.Ctx, reportertypes.StakeTracker{Expiration: &exp, Amount: sdkmath.NewInt(cs.Base)}); err != nil {
			return err
		}
		bonded, _ := c.App.StakingKeeper.TotalBondedTokens(c.Ctx)
		var msgs []sdk.Msg
		var txj []Rec
		for _, m := range cs.Tx {
			coin := sdk.NewInt64Coin(Denom, m.Amt)
			switch m.Kind {
			case "create":
				msgs = append(msgs, &stakingtypes.MsgCreateValidator{ValidatorAddress: sdk.ValAddress(rich.Addr).String(), Value: coin})
			case "delegate":
				msgs = append(msgs, stakingtypes.NewMsgDelegate(rich.Addr.String(), v.ValAddr.String(), coin))
			case "redelegate":
				msgs = append(msgs, stakingtypes.NewMsgBeginRedelegate(rich.Addr.String(), v.ValAddr.String(), v.ValAddr.String(), coin))
			case "cancel":
				msgs = append(msgs, stakingtypes.NewMsgCancelUnbondingDelegation(rich.Addr.String(), v.ValAddr.String(), 1, coin))
			case "undelegate":
				msgs = append(msgs, stakingtypes.NewMsgUndelegate(rich.Addr.String(), v.ValAddr.String(), coin))
			default:
				msgs = append(msgs, banktypes.NewMsgSend(rich.Addr, v.Oper.Addr, sdk.NewCoins(coin)))
			}
			txj = append(txj, Rec{"kind": m.Kind, "amt": NumI64(m.Amt)})
		}
		passed := false
		res := guard(func() error {
			_, err := dec.AnteHandle(c.Ctx, mockTx{msgs}, false, func(ctx sdk.Context, tx sdk.Tx, simulate bool) (sdk.Context, error) {
				passed = true
				return ctx, nil
			})
			return err
		})
		// the same messages as a real transaction signed by their sender, through the ante handler the production app
		// has installed (the whole decorator chain in its production order)
		var full PhaseResult
		if stx, err := c.SignedTx(rich, 2_000_000, msgs...); err != nil {
			full = PhaseResult{Ok: false, Err: "cannot build tx: " + err.Error()}
		} else {
			full = c.Ante(stx)
		}
		rec := Rec{"ev": "AnteCase", "hist": -(1 + n/400), "base": NumI64(cs.Base), "bonded": NumInt(bonded), "tx": txj, "ok": full.Ok, "okdec": res.Ok && passed}
		if !res.Ok {
			rec["errdec"] = errClass(res.Err)
		}
		if !full.Ok {
			rec["err"] = errClass(full.Err)
		}
		tr.Emit(rec)
		n++
		if full.Ok {
			admitted++
		}
		if len(samples) < 4 && n%977 == 5 {
			samples = append(samples, rec)
		}
	}
	f.Close()
	st["cases"] = n
	st["admitted"] = admitted
	st["rejected"] = n - admitted
	st["samples"] = samples
	st["lines"] = tr.N
	if err := tr.Close(); err != nil {
		return err
	}
	return WriteJSON(statsPath, st)
}
