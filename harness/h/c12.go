package h

import (
	"bufio"
	"encoding/json"
	"os"
	"strings"
	"time"

	disputetypes "github.com/tellor-io/layer/x/dispute/types"
	oracletypes "github.com/tellor-io/layer/x/oracle/types"

	"cosmossdk.io/collections"
	sdkmath "cosmossdk.io/math"

	sdk "github.com/cosmos/cosmos-sdk/types"
)

type c12Case struct {
	Ended bool `json:"ended"`
	Cn    struct {
		Users, Reporters, Holders, Team []uint64
	} `json:"cn"`
	Tot struct {
		Users, Reporters, Supply uint64
	} `json:"tot"`
}

// RunC12Tally installs each TLC-enumerated vote distribution in the real dispute keeper (state
// injection through the exported collections: Disputes, Votes, VoteCountsByGroup, BlockInfo, Voter) and
// runs the real TallyVote. Weights are scaled so that the chain's real token supply plays the role of
// the abstract supply: one abstract unit = supply/12 loya.
func RunC12Tally(casesPath, tracePath, statsPath string) error {
	c, err := NewChain(ChainOpts{NumVals: 1, NumActors: 2, RegisterEVM: true})
	if err != nil {
		return err
	}
	defer c.Close()
	team := c.Actors[0]
	if err := c.App.DisputeKeeper.Params.Set(c.Ctx, disputetypes.Params{TeamAddress: team.Addr.Bytes()}); err != nil {
		return err
	}
	tr, err := NewTrace(tracePath)
	if err != nil {
		return err
	}
	f, err := os.Open(casesPath)
	if err != nil {
		return err
	}
	sc := bufio.NewScanner(f)
	sc.Buffer(make([]byte, 1<<20), 1<<26)
	k := c.App.DisputeKeeper
	supply := c.Supply()
	unit := supply.QuoRaw(12).Uint64()
	n := 0
	results := map[int]int{}
	var samples []any
	for sc.Scan() {
		if strings.TrimSpace(sc.Text()) == "" {
			continue
		}
		var cs c12Case
		if err := json.Unmarshal(sc.Bytes(), &cs); err != nil {
			return err
		}
		n++
		id := uint64(n)
		cctx, _ := c.Ctx.CacheContext() // every case on a throw-away branch of the state
		hash := []byte{byte(n), byte(n >> 8), byte(n >> 16), 7}
		now := cctx.BlockTime()
		voteEnd := now.Add(time.Hour)
		if cs.Ended {
			voteEnd = now.Add(-time.Second)
		}
		d := disputetypes.Dispute{HashId: hash, DisputeId: id, DisputeCategory: disputetypes.Warning, DisputeStatus: disputetypes.Voting, DisputeStartTime: now.Add(-47 * time.Hour),
			DisputeEndTime: now.Add(24 * time.Hour), DisputeRound: 1, SlashAmount: sdkmath.NewInt(1000000), BurnAmount: sdkmath.NewInt(50000), DisputeFee: sdkmath.NewInt(950000),
			FeeTotal: sdkmath.NewInt(1000000), PrevDisputeIds: []uint64{id}, Open: true, InitialEvidence: oracletypes.MicroReport{Reporter: c.Actors[1].Addr.String()},
			VoterReward: sdkmath.ZeroInt()}
		mul := func(x uint64) uint64 { return x * unit }
		cnt := func(v []uint64) disputetypes.VoteCounts {
			return disputetypes.VoteCounts{Support: mul(v[0]), Against: mul(v[1]), Invalid: mul(v[2])}
		}
		res := guard(func() error {
			if err := k.Disputes.Set(cctx, id, d); err != nil {
				return err
			}
			if err := k.Votes.Set(cctx, id, disputetypes.Vote{Id: id, VoteStart: now.Add(-47 * time.Hour), VoteEnd: voteEnd}); err != nil {
				return err
			}
			if err := k.BlockInfo.Set(cctx, hash, disputetypes.BlockInfo{TotalReporterPower: sdkmath.NewIntFromUint64(mul(cs.Tot.Reporters)), TotalUserTips: sdkmath.NewIntFromUint64(mul(cs.Tot.Users))}); err != nil {
				return err
			}
			vc := disputetypes.StakeholderVoteCounts{Users: cnt(cs.Cn.Users), Reporters: cnt(cs.Cn.Reporters), Tokenholders: cnt(cs.Cn.Holders),
				Team: disputetypes.VoteCounts{Support: cs.Cn.Team[0], Against: cs.Cn.Team[1], Invalid: cs.Cn.Team[2]}}
			any := false
			for _, v := range [][]uint64{cs.Cn.Users, cs.Cn.Reporters, cs.Cn.Holders, cs.Cn.Team} {
				for _, x := range v {
					if x > 0 {
						any = true
					}
				}
			}
			if any {
				if err := k.VoteCountsByGroup.Set(cctx, id, vc); err != nil {
					return err
				}
				// a voter record for somebody who is not the team (so that "no voters" is told apart)
				if err := k.Voter.Set(cctx, collections.Join(id, c.Actors[1].Addr.Bytes()), disputetypes.Voter{Vote: disputetypes.VoteEnum_VOTE_SUPPORT, VoterPower: sdkmath.OneInt(), ReporterPower: sdkmath.ZeroInt(), TokenholderPower: sdkmath.OneInt()}); err != nil {
					return err
				}
			}
			if cs.Cn.Team[0]+cs.Cn.Team[1]+cs.Cn.Team[2] > 0 {
				ch := disputetypes.VoteEnum_VOTE_INVALID
				if cs.Cn.Team[0] > 0 {
					ch = disputetypes.VoteEnum_VOTE_SUPPORT
				} else if cs.Cn.Team[1] > 0 {
					ch = disputetypes.VoteEnum_VOTE_AGAINST
				}
				if err := k.Voter.Set(cctx, collections.Join(id, team.Addr.Bytes()), disputetypes.Voter{Vote: ch, VoterPower: sdkmath.NewInt(25000000), ReporterPower: sdkmath.ZeroInt(), TokenholderPower: sdkmath.ZeroInt()}); err != nil {
					return err
				}
			}
			return k.TallyVote(cctx, id)
		})
		result := 0
		if v, err := k.Votes.Get(cctx, id); err == nil {
			result = int(v.VoteResult)
		}
		nums := func(v []uint64) []Num { return []Num{NumU64(mul(v[0])), NumU64(mul(v[1])), NumU64(mul(v[2]))} }
		rec := Rec{"ev": "Tally", "ended": cs.Ended, "ok": res.Ok,
			"cn":  Rec{"users": nums(cs.Cn.Users), "reporters": nums(cs.Cn.Reporters), "holders": nums(cs.Cn.Holders), "team": []Num{NumU64(cs.Cn.Team[0]), NumU64(cs.Cn.Team[1]), NumU64(cs.Cn.Team[2])}},
			"tot": Rec{"users": NumU64(mul(cs.Tot.Users)), "reporters": NumU64(mul(cs.Tot.Reporters)), "supply": NumInt(sdkSupply(c, cctx))}, "result": result}
		if !res.Ok {
			rec["err"] = errClass(res.Err)
		}
		tr.Emit(rec)
		results[result]++
		if len(samples) < 4 && n%211 == 5 {
			samples = append(samples, rec)
		}
	}
	f.Close()
	st := map[string]any{"cases": n, "results": results, "lines": tr.N, "samples": samples}
	if err := tr.Close(); err != nil {
		return err
	}
	return WriteJSON(statsPath, st)
}

func sdkSupply(c *Chain, ctx sdk.Context) sdkmath.Int { return c.App.BankKeeper.GetSupply(ctx, Denom).Amount }
