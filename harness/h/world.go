package h

import (
	"encoding/hex"
	"fmt"
	"math/big"
	"math/rand"
	"regexp"
	"strings"
	"time"

	"github.com/ethereum/go-ethereum/accounts/abi"
	"github.com/ethereum/go-ethereum/common"
	"github.com/tellor-io/layer/utils"
	bridgetypes "github.com/tellor-io/layer/x/bridge/types"
	disputetypes "github.com/tellor-io/layer/x/dispute/types"
	minttypes "github.com/tellor-io/layer/x/mint/types"
	oracletypes "github.com/tellor-io/layer/x/oracle/types"
	registrytypes "github.com/tellor-io/layer/x/registry/types"
	reportertypes "github.com/tellor-io/layer/x/reporter/types"

	"cosmossdk.io/collections"
	sdkmath "cosmossdk.io/math"

	sdk "github.com/cosmos/cosmos-sdk/types"
	authtypes "github.com/cosmos/cosmos-sdk/x/auth/types"
	govtypes "github.com/cosmos/cosmos-sdk/x/gov/types"
	banktypes "github.com/cosmos/cosmos-sdk/x/bank/types"
	stakingtypes "github.com/cosmos/cosmos-sdk/x/staking/types"
)

// World = a chain plus the named things histories talk about.
type World struct {
	*Chain
	Rng   *rand.Rand
	Tr    *Trace
	Hist  int
	Users []*Actor
	Team  *Actor
	Gov   string // governance authority (bech32)
	// query name -> query data
	QData map[string][]byte
	QName map[string]string // hex(queryId) -> name
	// accepted reports, newest last (material for disputes / evidence)
	Reports []oracletypes.MicroReport
	// what to project after each event
	Proj    map[string]bool
	Seq     int
	Halted  bool
	NextDep uint64
	Extra   func(w *World, rec Rec) // per-driver extra projection
}

var (
	tString, _  = abi.NewType("string", "", nil)
	tBytes, _   = abi.NewType("bytes", "", nil)
	tBool, _    = abi.NewType("bool", "", nil)
	tUint256, _ = abi.NewType("uint256", "", nil)
	tAddress, _ = abi.NewType("address", "", nil)
)

func SpotQuery(asset, currency string) []byte {
	inner, err := abi.Arguments{{Type: tString}, {Type: tString}}.Pack(asset, currency)
	if err != nil {
		panic(err)
	}
	out, err := abi.Arguments{{Type: tString}, {Type: tBytes}}.Pack("SpotPrice", inner)
	if err != nil {
		panic(err)
	}
	return out
}

func BridgeQuery(toLayer bool, id uint64) []byte {
	inner, err := abi.Arguments{{Type: tBool}, {Type: tUint256}}.Pack(toLayer, new(big.Int).SetUint64(id))
	if err != nil {
		panic(err)
	}
	out, err := abi.Arguments{{Type: tString}, {Type: tBytes}}.Pack("TRBBridge", inner)
	if err != nil {
		panic(err)
	}
	return out
}

// DepositValue = hex(abi.encode(address ethSender, string layerRecipient, uint256 amount, uint256 tip))
func DepositValue(recipient string, amount, tip *big.Int) string {
	b, err := abi.Arguments{{Type: tAddress}, {Type: tString}, {Type: tUint256}, {Type: tUint256}}.Pack(
		common.HexToAddress("0x00000000000000000000000000000000000000aa"), recipient, amount, tip)
	if err != nil {
		panic(err)
	}
	return hex.EncodeToString(b)
}

type WorldOpts struct {
	RegisterOnlyFirst bool // only v0 gets an EVM address at genesis (others register later, at any time)
	Chain    ChainOpts
	NumUsers int
	Proj     []string
}

func NewWorld(seed int64, tr *Trace, hist int, o WorldOpts) (*World, error) {
	if o.Chain.NumVals == 0 {
		o.Chain.NumVals = 3
		o.Chain.ValTokens = []int64{4_000_000_000, 2_000_000_000, 1_000_000_000}
	} else if len(o.Chain.ValTokens) == 0 {
		o.Chain.ValTokens = []int64{4_000_000_000, 2_000_000_000, 1_000_000_000, 500_000_000, 250_000_000, 125_000_000}[:o.Chain.NumVals]
	}
	o.Chain.RegisterEVM = true
	o.Chain.RegisterOnlyFirst = o.RegisterOnlyFirst
	if o.NumUsers == 0 {
		o.NumUsers = 6
	}
	o.Chain.NumActors = o.NumUsers + 1
	c, err := NewChain(o.Chain)
	if err != nil {
		return nil, err
	}
	w := &World{Chain: c, Rng: rand.New(rand.NewSource(seed)), Tr: tr, Hist: hist, QData: map[string][]byte{}, QName: map[string]string{}, Proj: map[string]bool{}}
	for _, p := range o.Proj {
		w.Proj[p] = true
	}
	w.Users = c.Actors[:o.NumUsers]
	w.Team = c.Actors[o.NumUsers]
	c.Names[w.Team.Addr.String()] = "team"
	w.Team.Name = "team"
	w.Gov = authtypes.NewModuleAddress(govtypes.ModuleName).String()
	c.Names[w.Gov] = "gov"
	if err := c.App.DisputeKeeper.Params.Set(c.Ctx, disputetypes.Params{TeamAddress: w.Team.Addr.Bytes()}); err != nil {
		return nil, err
	}
	cl := oracletypes.InitialCycleList()
	w.addQuery("qeth", cl[0])
	w.addQuery("qbtc", cl[1])
	w.addQuery("qtrb", cl[2])
	w.addQuery("qsol", SpotQuery("sol", "usd"))
	w.addQuery("qada", SpotQuery("ada", "usd"))
	for i := uint64(1); i <= 8; i++ {
		w.addQuery(fmt.Sprintf("dep%d", i), BridgeQuery(true, i))
	}
	for i := uint64(1); i <= 60; i++ {
		w.addQuery(fmt.Sprintf("wd%d", i), BridgeQuery(false, i))
	}
	w.NextDep = 1
	return w, nil
}

func (w *World) addQuery(name string, qd []byte) {
	w.QData[name] = qd
	w.QName[hex.EncodeToString(utils.QueryIDFromData(qd))] = name
}

func (w *World) QN(qid []byte) string {
	if n, ok := w.QName[hex.EncodeToString(qid)]; ok {
		return n
	}
	return hex.EncodeToString(qid)
}

func (w *World) emit(ev string, args Rec, res PhaseResult) Rec {
	w.Seq++
	rec := Rec{"ev": ev, "hist": w.Hist, "seq": w.Seq, "h": w.Height, "t": NumI64(w.Time.UnixMilli()), "tn": NumI64(w.Time.UnixNano()), "ok": res.Ok}
	for k, v := range args {
		rec[k] = v
	}
	if !res.Ok {
		rec["err"] = errClass(res.Err)
		if m := shortfallRe.FindStringSubmatch(res.Err); m != nil {
			// the bank's own words: what the paying account has and what the payment needs
			have, _ := sdkmath.NewIntFromString(m[1])
			need, _ := sdkmath.NewIntFromString(m[2])
			rec["have"], rec["need"] = NumInt(have), NumInt(need)
		}
		if res.Panic {
			rec["panic"] = true
			rec["panickind"] = panicKind(res.Err)
			rec["errfull"] = firstLines(res.Err, 12)
		}
	}
	w.project(rec)
	if w.Extra != nil {
		w.Extra(w, rec)
	}
	w.Tr.Emit(rec)
	return rec
}

// panicKind names the class of a recovered panic (the trace specifications tell known consequences of open findings
// from everything else by it).
func panicKind(s string) string {
	switch {
	case strings.Contains(s, "negative coin amount"):
		return "negative-coin"
	case strings.Contains(s, "out of range"), strings.Contains(s, "out of bounds"):
		return "bounds"
	}
	return "other"
}

var shortfallRe = regexp.MustCompile(`spendable balance (\d+)loya is smaller than (\d+)loya`)

func firstLines(s string, n int) string {
	l := strings.Split(s, "\n")
	if len(l) > n {
		l = l[:n]
	}
	return strings.Join(l, "\n")
}

// errClass shortens an error text to a stable class (first 120 chars, no addresses).
func errClass(s string) string {
	if i := strings.Index(s, "\n"); i >= 0 {
		s = s[:i]
	}
	if len(s) > 160 {
		s = s[:160]
	}
	return s
}

// ---------- block phases ----------

// Begin starts a new block dt after the previous one. A failing automatic phase is recorded and
// halts this history (the chain cannot make progress).
func (w *World) Begin(dt time.Duration) bool {
	r := w.BeginBlock(dt)
	w.emit("BeginBlock", Rec{"dt": NumI64(dt.Milliseconds()), "dtn": NumI64(dt.Nanoseconds())}, r)
	if !r.Ok {
		w.Halted = true
	}
	return r.Ok
}

// closingRounds projects, BEFORE the end-blocker runs, the rounds that will close in this block with
// their reports, each report's power, the reporter's commission rate and the stake snapshot
// (token origins) recorded when the report was made: the inputs of the reward split.
func (w *World) closingRounds() []Rec {
	out := []Rec{}
	_ = w.App.OracleKeeper.Query.Walk(w.Ctx, nil, func(k collections.Pair[[]byte, uint64], q oracletypes.QueryMeta) (bool, error) {
		if !q.HasRevealedReports || q.Expiration > uint64(w.Height) {
			return false, nil
		}
		var reps []Rec
		_ = w.App.OracleKeeper.Reports.Walk(w.Ctx, nil, func(rk collectionsTriple, r oracletypes.MicroReport) (bool, error) {
			if string(rk.K1()) != string(k.K1()) || rk.K3() != q.Id {
				return false, nil
			}
			ra, _ := sdk.AccAddressFromBech32(r.Reporter)
			rr := Rec{"rep": w.Name(r.Reporter), "pow": NumU64(r.Power), "h": int(r.BlockNumber), "cyc": r.Cyclelist}
			if rep, err := w.App.ReporterKeeper.Reporters.Get(w.Ctx, ra.Bytes()); err == nil {
				rr["comm"] = Dec18(rep.CommissionRate)
			} else {
				rr["comm"] = Signed{Mag: Num{}}
			}
			if da, err := w.App.ReporterKeeper.Report.Get(w.Ctx, collections.Join(k.K1(), collections.Join(ra.Bytes(), r.BlockNumber))); err == nil {
				rr["origins"] = w.originsRec(da)
			} else {
				rr["origins"] = Rec{"total": Signed{Mag: Num{}}, "origins": []Rec{}}
			}
			reps = append(reps, rr)
			return false, nil
		})
		out = append(out, Rec{"q": w.QN(k.K1()), "id": int(q.Id), "amt": NumInt(q.Amount), "cyc": q.CycleList, "kind": queryKind(w.QN(k.K1())), "reports": reps})
		return false, nil
	})
	return out
}

func (w *World) End() bool {
	var closing []Rec
	var tbrBefore Num
	if w.Proj["rewards"] {
		closing = w.closingRounds()
		tbrBefore = NumInt(w.ModBal("time_based_rewards"))
	}
	r := w.EndBlock()
	args := Rec{}
	if w.Proj["rewards"] {
		args["closing"] = closing
		args["tbrpre"] = tbrBefore
		args["tbrpost"] = NumInt(w.ModBal("time_based_rewards"))
	}
	if tb, err := w.App.StakingKeeper.TotalBondedTokens(w.Ctx); err == nil {
		args["bonded"] = NumInt(tb)
	}
	w.emit("EndBlock", args, r)
	if !r.Ok {
		w.Halted = true
	}
	return r.Ok
}

func (w *World) EmptyBlocks(n int, dt time.Duration) bool {
	for i := 0; i < n; i++ {
		if !w.Begin(dt) || !w.End() {
			return false
		}
	}
	return true
}

// ---------- message helpers (each executes ONE real message and records it) ----------

func coin(a int64) sdk.Coin { return sdk.NewInt64Coin(Denom, a) }

func (w *World) do(ev string, args Rec, msg sdk.Msg) PhaseResult {
	_, r := w.Exec(msg)
	w.emit(ev, args, r)
	return r
}

func (w *World) Delegate(a *Actor, v *Val, amt int64) PhaseResult {
	return w.do("Delegate", Rec{"who": a.Name, "val": v.Name, "amt": NumI64(amt)},
		stakingtypes.NewMsgDelegate(a.Addr.String(), v.ValAddr.String(), coin(amt)))
}

// Send: an ordinary bank transfer signed by its sender.
func (w *World) Send(from, to *Actor, amt int64) PhaseResult {
	return w.do("Send", Rec{"who": from.Name, "to": to.Name, "amt": NumI64(amt)},
		banktypes.NewMsgSend(from.Addr, to.Addr, sdk.NewCoins(coin(amt))))
}

func (w *World) Undelegate(a *Actor, v *Val, amt int64) PhaseResult {
	return w.do("Undelegate", Rec{"who": a.Name, "val": v.Name, "amt": NumI64(amt)},
		stakingtypes.NewMsgUndelegate(a.Addr.String(), v.ValAddr.String(), coin(amt)))
}

func (w *World) Redelegate(a *Actor, from, to *Val, amt int64) PhaseResult {
	return w.do("Redelegate", Rec{"who": a.Name, "val": from.Name, "dst": to.Name, "amt": NumI64(amt)},
		stakingtypes.NewMsgBeginRedelegate(a.Addr.String(), from.ValAddr.String(), to.ValAddr.String(), coin(amt)))
}

func (w *World) CreateReporter(a *Actor, commission sdkmath.LegacyDec, minTokens int64) PhaseResult {
	return w.do("CreateReporter", Rec{"who": a.Name, "comm": Dec18(commission), "min": NumI64(minTokens), "mytok": w.ownTokens(a)},
		&reportertypes.MsgCreateReporter{ReporterAddress: a.Addr.String(), CommissionRate: commission, MinTokensRequired: sdkmath.NewInt(minTokens)})
}

func (w *World) SelectReporter(s, r *Actor) PhaseResult {
	return w.do("SelectReporter", Rec{"who": s.Name, "rep": r.Name, "mytok": w.ownTokens(s)},
		&reportertypes.MsgSelectReporter{SelectorAddress: s.Addr.String(), ReporterAddress: r.Addr.String()})
}

func (w *World) SwitchReporter(s, r *Actor) PhaseResult {
	return w.do("SwitchReporter", Rec{"who": s.Name, "rep": r.Name, "mytok": w.ownTokens(s), "unbondms": w.unbondingMs()},
		&reportertypes.MsgSwitchReporter{SelectorAddress: s.Addr.String(), ReporterAddress: r.Addr.String()})
}

func (w *World) RemoveSelector(by, s *Actor) PhaseResult {
	args := Rec{"who": by.Name, "sel": s.Name, "seltokens": w.ownTokens(s), "repmin": Num{}, "nsel": 0, "maxsel": 0}
	// observed before the message: the minimum of the selector's reporter, how many selectors that reporter has, the cap
	if sl, err := w.App.ReporterKeeper.Selectors.Get(w.Ctx, s.Addr.Bytes()); err == nil {
		if r, err := w.App.ReporterKeeper.Reporters.Get(w.Ctx, sl.Reporter); err == nil {
			args["repmin"] = NumInt(r.MinTokensRequired)
		}
		n := 0
		_ = w.App.ReporterKeeper.Selectors.Walk(w.Ctx, nil, func(_ []byte, x reportertypes.Selection) (bool, error) {
			if string(x.Reporter) == string(sl.Reporter) {
				n++
			}
			return false, nil
		})
		args["nsel"] = n
	}
	if p, err := w.App.ReporterKeeper.Params.Get(w.Ctx); err == nil {
		args["maxsel"] = int(p.MaxSelectors)
	}
	return w.do("RemoveSelector", args,
		&reportertypes.MsgRemoveSelector{AnyAddress: by.Addr.String(), SelectorAddress: s.Addr.String()})
}

func (w *World) Unjail(r *Actor) PhaseResult {
	return w.do("UnjailReporter", Rec{"who": r.Name}, &reportertypes.MsgUnjailReporter{ReporterAddress: r.Addr.String()})
}

func (w *World) WithdrawTip(s *Actor, v *Val) PhaseResult {
	return w.do("WithdrawTip", Rec{"who": s.Name, "val": v.Name},
		&reportertypes.MsgWithdrawTip{SelectorAddress: s.Addr.String(), ValidatorAddress: v.ValAddr.String()})
}

func (w *World) Tip(a *Actor, q string, amt int64) PhaseResult {
	return w.do("Tip", Rec{"who": a.Name, "q": q, "amt": NumI64(amt)},
		&oracletypes.MsgTip{Tipper: a.Addr.String(), QueryData: w.QData[q], Amount: coin(amt)})
}

func (w *World) Submit(a *Actor, q string, value string) PhaseResult {
	msg := &oracletypes.MsgSubmitValue{Creator: a.Addr.String(), QueryData: w.QData[q], Value: value}
	args := Rec{"who": a.Name, "q": q, "value": value, "kind": queryKind(q), "vclass": w.valueClass(q, value), "seltok": w.selectorTokens(a)}
	if rep, err := w.App.ReporterKeeper.Reporters.Get(w.Ctx, a.Addr.Bytes()); err == nil {
		args["isrep"] = true
		args["jailed"] = rep.Jailed
	} else {
		args["isrep"] = false
		args["jailed"] = false
	}
	if p, err := w.App.OracleKeeper.Params.Get(w.Ctx); err == nil {
		args["minstake"] = NumInt(p.MinStakeAmount)
	}
	_, r := w.Exec(msg)
	if r.Ok {
		// remember the stored micro report (material for disputes)
		qid := utils.QueryIDFromData(w.QData[q])
		if mr, ok := w.findReport(qid, a.Addr); ok {
			w.Reports = append(w.Reports, mr)
			args["power"] = NumU64(mr.Power)
			args["cyclelist"] = mr.Cyclelist
			if da, err := w.App.ReporterKeeper.Report.Get(w.Ctx, collections.Join(qid, collections.Join(a.Addr.Bytes(), uint64(w.Height)))); err == nil {
				args["origins"] = w.originsRec(da)
			}
		}
	}
	w.emit("SubmitValue", args, r)
	return r
}

func (w *World) findReport(qid []byte, rep sdk.AccAddress) (oracletypes.MicroReport, bool) {
	var found oracletypes.MicroReport
	ok := false
	_ = w.App.OracleKeeper.Reports.Walk(w.Ctx, nil, func(k collectionsTriple, v oracletypes.MicroReport) (bool, error) {
		if string(v.QueryId) == string(qid) && v.Reporter == rep.String() && v.BlockNumber == uint64(w.Height) {
			found, ok = v, true
		}
		return false, nil
	})
	return found, ok
}

func (w *World) ProposeDispute(a *Actor, rep oracletypes.MicroReport, cat disputetypes.DisputeCategory, fee int64, fromBond bool, tag string) PhaseResult {
	r := rep
	return w.do("ProposeDispute", Rec{"facts": w.evidenceFacts(rep), "backers": w.backersOf(rep), "who": a.Name, "rep": w.Name(rep.Reporter), "q": w.QN(rep.QueryId), "cat": int(cat), "fee": NumI64(fee), "bond": fromBond,
		"rpower": NumU64(rep.Power), "rblock": int(rep.BlockNumber), "rvalue": rep.Value, "tag": tag},
		&disputetypes.MsgProposeDispute{Creator: a.Addr.String(), Report: &r, DisputeCategory: cat, Fee: coin(fee), PayFromBond: fromBond})
}

func (w *World) AddFee(a *Actor, id uint64, amt int64, fromBond bool) PhaseResult {
	args := Rec{"who": a.Name, "id": int(id), "amt": NumI64(amt), "bond": fromBond, "backers": []string{}, "rep": "none"}
	if d, err := w.App.DisputeKeeper.Disputes.Get(w.Ctx, id); err == nil {
		args["backers"] = w.backersOf(d.InitialEvidence)
		args["rep"] = w.Name(d.InitialEvidence.Reporter)
		args["facts"] = w.evidenceFacts(d.InitialEvidence)
		args["q"] = w.QN(d.InitialEvidence.QueryId)
		args["rblock"] = int(d.InitialEvidence.BlockNumber)
		args["rpower"] = NumU64(d.InitialEvidence.Power)
		args["cat"] = int(d.DisputeCategory)
	}
	return w.do("AddFeeToDispute", args,
		&disputetypes.MsgAddFeeToDispute{Creator: a.Addr.String(), DisputeId: id, Amount: coin(amt), PayFromBond: fromBond})
}

func (w *World) Vote(a *Actor, id uint64, choice disputetypes.VoteEnum) PhaseResult {
	args := Rec{"who": a.Name, "id": int(id), "choice": int(choice), "bal": NumInt(w.Bal(a.Addr)), "isteam": false, "usertips": Num{}, "isrep": false, "reptok": Num{}, "issel": false, "seltok": Num{}, "selrep": "none"}
	if p, err := w.App.DisputeKeeper.Params.Get(w.Ctx); err == nil && string(p.TeamAddress) == string(a.Addr.Bytes()) {
		args["isteam"] = true
	}
	if d, err := w.App.DisputeKeeper.Disputes.Get(w.Ctx, id); err == nil {
		// "as of the dispute's block": the block at which the FIRST round of this dispute was opened (read from that
		// round's own record, not from the round being voted on)
		if len(d.PrevDisputeIds) > 0 {
			if first, err := w.App.DisputeKeeper.Disputes.Get(w.Ctx, d.PrevDisputeIds[0]); err == nil {
				d.BlockNumber = first.BlockNumber
			}
		}
		if t, err := w.App.OracleKeeper.GetTipsAtBlockForTipper(w.Ctx, d.BlockNumber, a.Addr); err == nil {
			args["usertips"] = NumInt(t)
		}
		if sel, err := w.App.ReporterKeeper.Selectors.Get(w.Ctx, a.Addr.Bytes()); err == nil {
			args["issel"] = true
			args["selrep"] = w.Name(sdk.AccAddress(sel.Reporter).String())
			if string(sel.Reporter) == string(a.Addr.Bytes()) {
				args["isrep"] = true
				if t, err := w.App.ReporterKeeper.GetReporterTokensAtBlock(w.Ctx, a.Addr.Bytes(), d.BlockNumber); err == nil {
					args["reptok"] = NumInt(t)
				}
			}
			if t, err := w.App.ReporterKeeper.GetDelegatorTokensAtBlock(w.Ctx, a.Addr.Bytes(), d.BlockNumber); err == nil {
				args["seltok"] = NumInt(t)
			}
		}
	}
	return w.do("Vote", args,
		&disputetypes.MsgVote{Voter: a.Addr.String(), Id: id, Vote: choice})
}

func (w *World) AddEvidence(a *Actor, id uint64, rep oracletypes.MicroReport) PhaseResult {
	r := rep
	return w.do("AddEvidence", Rec{"facts": w.evidenceFacts(rep), "who": a.Name, "id": int(id), "rep": w.Name(rep.Reporter), "q": w.QN(rep.QueryId), "rblock": int(rep.BlockNumber)},
		&disputetypes.MsgAddEvidence{CallerAddress: a.Addr.String(), DisputeId: id, Reports: []*oracletypes.MicroReport{&r}})
}

func (w *World) WithdrawFeeRefund(caller, payer *Actor, id uint64) PhaseResult {
	return w.do("WithdrawFeeRefund", Rec{"who": caller.Name, "payer": payer.Name, "id": int(id)},
		&disputetypes.MsgWithdrawFeeRefund{CallerAddress: caller.Addr.String(), PayerAddress: payer.Addr.String(), Id: id})
}

func (w *World) ClaimReward(a *Actor, id uint64) PhaseResult {
	return w.do("ClaimReward", Rec{"who": a.Name, "id": int(id)},
		&disputetypes.MsgClaimReward{CallerAddress: a.Addr.String(), DisputeId: id})
}

func (w *World) UpdateTeam(cur, nw *Actor) PhaseResult {
	return w.do("UpdateTeam", Rec{"who": cur.Name, "new": nw.Name},
		&disputetypes.MsgUpdateTeam{CurrentTeamAddress: cur.Addr.String(), NewTeamAddress: nw.Addr.String()})
}

func (w *World) WithdrawTokens(a *Actor, recipient string, amt int64) PhaseResult {
	msg := &bridgetypes.MsgWithdrawTokens{Creator: a.Addr.String(), Recipient: recipient, Amount: coin(amt)}
	_, r := w.Exec(msg)
	// the requested recipient as a 20-byte address: shorter inputs are left-padded with zeros (a string
	// operation); longer ones are not addresses ("toolong": no requirement on what is published)
	norm := strings.ToLower(recipient)
	if len(norm) <= 40 {
		norm = strings.Repeat("0", 40-len(norm)) + norm
	} else {
		norm = "toolong"
	}
	args := Rec{"who": a.Name, "whoaddr": a.Addr.String(), "rcpt": strings.ToLower(recipient), "rcptnorm": norm, "amt": NumI64(amt)}
	if r.Ok {
		// what was published: the aggregate under the withdrawal query of the id just issued (decoded with the Go ABI library)
		pub := Rec{"found": false}
		if wid, err := w.App.BridgeKeeper.WithdrawalId.Get(w.Ctx); err == nil {
			pub["id"] = int(wid.Id)
			qid := utils.QueryIDFromData(BridgeQuery(false, wid.Id))
			if agg, ts, err := w.App.OracleKeeper.GetCurrentAggregateReport(w.Ctx, qid); err == nil && agg != nil {
				pub["found"] = true
				pub["ts"] = NumI64(ts.UnixMilli())
				pub["nreporters"] = len(agg.Reporters)
				if b, e := hex.DecodeString(agg.AggregateValue); e == nil {
					if vals, e := (abi.Arguments{{Type: tAddress}, {Type: tString}, {Type: tUint256}, {Type: tUint256}}).Unpack(b); e == nil {
						pub["rcpt"] = strings.ToLower(hex.EncodeToString(vals[0].(common.Address).Bytes()))
						pub["sender"] = vals[1].(string)
						pub["amount"] = NumBig(vals[2].(*big.Int))
						pub["tip"] = NumBig(vals[3].(*big.Int))
					}
				}
			}
		}
		args["pub"] = pub
	}
	w.emit("WithdrawTokens", args, r)
	return r
}

// claimInfo projects, for each (deposit id, index) of a claim, what the oracle store holds at that
// position BEFORE the claim executes (inputs of the claim guard; decoded by the Go ABI library).
func (w *World) claimInfo(ids, idx []uint64) []Rec {
	var out []Rec
	for i := range ids {
		r := Rec{"id": int(ids[i]), "idx": int(0), "found": false}
		if i < len(idx) {
			r["idx"] = int(idx[i])
			qid := utils.QueryIDFromData(BridgeQuery(true, ids[i]))
			agg, ts, err := w.App.OracleKeeper.GetAggregateByIndex(w.Ctx, qid, idx[i])
			if err == nil && agg != nil {
				r["found"] = true
				r["flag"] = agg.Flagged
				r["ts"] = NumI64(ts.UnixMilli())
				r["pow"] = NumU64(agg.ReporterPower)
				r["val"] = agg.AggregateValue
				dec := Rec{"ok": false}
				if b, e := hex.DecodeString(agg.AggregateValue); e == nil {
					if vals, e := (abi.Arguments{{Type: tAddress}, {Type: tString}, {Type: tUint256}, {Type: tUint256}}).Unpack(b); e == nil {
						dec = Rec{"ok": true, "rcpt": w.Name(vals[1].(string)), "amount": NumBig(vals[2].(*big.Int)), "tip": NumBig(vals[3].(*big.Int))}
						if _, e := sdk.AccAddressFromBech32(vals[1].(string)); e != nil {
							dec["badrcpt"] = true
						} else {
							dec["badrcpt"] = false
						}
					}
				}
				r["dec"] = dec
			}
		}
		out = append(out, r)
	}
	return out
}

func (w *World) ClaimDeposits(a *Actor, ids, idx []uint64) PhaseResult {
	return w.do("ClaimDeposits", Rec{"who": a.Name, "ids": ids, "idx": idx, "claims": w.claimInfo(ids, idx)},
		&bridgetypes.MsgClaimDepositsRequest{Creator: a.Addr.String(), DepositIds: ids, Indices: idx})
}

func (w *World) RequestAttestations(a *Actor, qidHex, ts string) PhaseResult {
	return w.do("RequestAttestations", Rec{"who": a.Name, "qid": qidHex, "ts": ts},
		&bridgetypes.MsgRequestAttestations{Creator: a.Addr.String(), QueryId: qidHex, Timestamp: ts})
}

func (w *World) MintInit(signer string) PhaseResult {
	return w.do("MintInit", Rec{"who": w.Name(signer)}, &minttypes.MsgInit{Authority: signer})
}

func (w *World) UpdateCyclelist(signer string, names []string) PhaseResult {
	var l [][]byte
	for _, n := range names {
		if qd, ok := w.QData[n]; ok {
			l = append(l, qd)
		} else {
			l = append(l, []byte(n)) // raw (undecodable) entry
		}
	}
	return w.do("UpdateCyclelist", Rec{"who": w.Name(signer), "list": names}, &oracletypes.MsgUpdateCyclelist{Authority: signer, Cyclelist: l})
}

func (w *World) UpdateOracleParams(signer string, minStake int64) PhaseResult {
	p, _ := w.App.OracleKeeper.Params.Get(w.Ctx)
	p.MinStakeAmount = sdkmath.NewInt(minStake)
	return w.do("UpdateOracleParams", Rec{"who": w.Name(signer), "minstake": NumI64(minStake)}, &oracletypes.MsgUpdateParams{Authority: signer, Params: p})
}

func (w *World) UpdateReporterParams(signer string, maxSel uint64, minTrb int64) PhaseResult {
	p, _ := w.App.ReporterKeeper.Params.Get(w.Ctx)
	p.MaxSelectors = maxSel
	p.MinTrb = sdkmath.NewInt(minTrb)
	return w.do("UpdateReporterParams", Rec{"who": w.Name(signer), "maxsel": int(maxSel), "mintrb": NumI64(minTrb)}, &reportertypes.MsgUpdateParams{Authority: signer, Params: p})
}

// UpdateStakingParams: the SDK staking module's own governance message (validator cap, unbonding time).
func (w *World) UpdateStakingParams(signer string, maxVals uint32, unbonding time.Duration) PhaseResult {
	p, _ := w.App.StakingKeeper.GetParams(w.Ctx)
	p.MaxValidators = maxVals
	p.UnbondingTime = unbonding
	return w.do("UpdateStakingParams", Rec{"who": w.Name(signer), "maxvals": int(maxVals), "unbondms": NumI64(unbonding.Milliseconds())},
		&stakingtypes.MsgUpdateParams{Authority: signer, Params: p})
}

func (w *World) UpdateSnapshotLimit(signer string, limit uint64) PhaseResult {
	return w.do("UpdateSnapshotLimit", Rec{"who": w.Name(signer), "limit": int(limit)}, &bridgetypes.MsgUpdateSnapshotLimit{Authority: signer, Limit: limit})
}

func (w *World) RegisterSpec(a *Actor, qtype string, spec registrytypes.DataSpec) PhaseResult {
	return w.do("RegisterSpec", Rec{"who": a.Name, "qtype": qtype, "window": int(spec.ReportBlockWindow), "agg": spec.AggregationMethod, "vtype": spec.ResponseValueType},
		&registrytypes.MsgRegisterSpec{Registrar: a.Addr.String(), QueryType: qtype, Spec: spec})
}

func (w *World) UpdateDataSpec(signer string, qtype string, spec registrytypes.DataSpec) PhaseResult {
	return w.do("UpdateDataSpec", Rec{"who": w.Name(signer), "qtype": qtype, "window": int(spec.ReportBlockWindow), "agg": spec.AggregationMethod, "vtype": spec.ResponseValueType},
		&registrytypes.MsgUpdateDataSpec{Authority: signer, QueryType: qtype, Spec: spec})
}

func queryKind(q string) string {
	switch {
	case strings.HasPrefix(q, "dep"):
		return "deposit"
	case strings.HasPrefix(q, "wd"):
		return "withdrawal"
	default:
		return "normal"
	}
}

// valueClass says whether the submitted string is a well-formed value for the query's response type
// (generator knowledge: which generator produced it); "valid" values must be accepted when the
// round is open.
func (w *World) valueClass(q, v string) string {
	b, err := hex.DecodeString(strings.TrimPrefix(strings.TrimPrefix(v, "0x"), "0X"))
	if err != nil {
		return "bad"
	}
	if queryKind(q) == "normal" {
		if len(b) >= 32 {
			return "valid"
		}
		return "bad"
	}
	if _, err := (abi.Arguments{{Type: tAddress}, {Type: tString}, {Type: tUint256}, {Type: tUint256}}).Unpack(b); err != nil {
		// the registered response type is (address,string,uint256): anything that decodes to it is accepted at submission
		if _, err2 := (abi.Arguments{{Type: tAddress}, {Type: tString}, {Type: tUint256}}).Unpack(b); err2 != nil {
			return "bad"
		}
	}
	return "valid"
}

// selectorTokens lists, for every selector of reporter a, each delegation with its token value as
// the staking module reports it, the validator's bonding status and the selector's lock time
// (observed stake; the spec sums what counts).
func (w *World) selectorTokens(a *Actor) []Rec {
	out := []Rec{}
	// validators that the staking module's "bonded validators by power" walk reaches right now (at most MaxValidators
	// entries of the power index, which follows delegations at once, while the bonded STATUS changes at the end of a block)
	intop := map[string]bool{}
	_ = w.App.StakingKeeper.IterateBondedValidatorsByPower(w.Ctx, func(_ int64, v stakingtypes.ValidatorI) bool {
		intop[v.GetOperator()] = true
		return false
	})
	maxvals, _ := w.App.StakingKeeper.MaxValidators(w.Ctx)
	_ = w.App.ReporterKeeper.Selectors.Walk(w.Ctx, nil, func(k []byte, sel reportertypes.Selection) (bool, error) {
		if string(sel.Reporter) != string(a.Addr.Bytes()) {
			return false, nil
		}
		dels, _ := w.App.StakingKeeper.GetDelegatorDelegations(w.Ctx, sdk.AccAddress(k), 1000)
		for _, d := range dels {
			va, _ := sdk.ValAddressFromBech32(d.ValidatorAddress)
			v, err := w.App.StakingKeeper.GetValidator(w.Ctx, va)
			if err != nil {
				continue
			}
			out = append(out, Rec{"sel": w.Name(sdk.AccAddress(k).String()), "val": w.Name(d.ValidatorAddress), "tok": NumInt(v.TokensFromShares(d.Shares).TruncateInt()),
				"bonded": v.IsBonded(), "locked": ms(sel.LockedUntilTime), "lockedn": nsNum(sel.LockedUntilTime), "cnt": int(sel.DelegationsCount), "intop": intop[d.ValidatorAddress], "maxvals": int(maxvals)})
		}
		return false, nil
	})
	return out
}

// ownTokens lists the delegations of one account as the staking module reports them.
func (w *World) ownTokens(a *Actor) []Rec {
	out := []Rec{}
	dels, _ := w.App.StakingKeeper.GetDelegatorDelegations(w.Ctx, a.Addr, 1000)
	for _, d := range dels {
		va, _ := sdk.ValAddressFromBech32(d.ValidatorAddress)
		v, err := w.App.StakingKeeper.GetValidator(w.Ctx, va)
		if err != nil {
			continue
		}
		out = append(out, Rec{"val": w.Name(d.ValidatorAddress), "tok": NumInt(v.TokensFromShares(d.Shares).TruncateInt()), "bonded": v.IsBonded()})
	}
	return out
}

func (w *World) unbondingMs() Num {
	d, err := w.App.StakingKeeper.UnbondingTime(w.Ctx)
	if err != nil {
		return Num{}
	}
	return NumI64(d.Milliseconds())
}

// ValJail / ValUnjail: SDK-native validator status changes (what the slashing module does on
// downtime / unjail); environment events, recorded so that the specs see the status change.
func (w *World) ValJail(v *Val) PhaseResult {
	r := guard(func() error {
		val, err := w.App.StakingKeeper.GetValidator(w.Ctx, v.ValAddr)
		if err != nil {
			return err
		}
		if val.Jailed {
			return fmt.Errorf("already jailed")
		}
		cons, err := val.GetConsAddr()
		if err != nil {
			return err
		}
		return w.App.StakingKeeper.Jail(w.Ctx, cons)
	})
	w.emit("ValJail", Rec{"val": v.Name}, r)
	return r
}

// ValSlash: the SDK's own punishment of a validator for an infraction `back` blocks ago (what x/slashing and
// x/evidence do): a fraction of its tokens - and of the unbonding entries and redelegations begun since - is burned.
// Afterwards a share of that validator is worth less than a token and unbonding entries hold less than their
// initial balance.
func (w *World) ValSlash(v *Val, pct int64, back int64) PhaseResult {
	r := guard(func() error {
		val, err := w.App.StakingKeeper.GetValidator(w.Ctx, v.ValAddr)
		if err != nil {
			return err
		}
		cons, err := val.GetConsAddr()
		if err != nil {
			return err
		}
		h := w.Height - back
		if h < 1 {
			h = 1
		}
		_, err = w.App.StakingKeeper.Slash(w.Ctx, cons, h, val.GetConsensusPower(sdk.DefaultPowerReduction), sdkmath.LegacyNewDecWithPrec(pct, 2))
		return err
	})
	w.emit("ValSlash", Rec{"val": v.Name, "pct": int(pct), "back": int(back)}, r)
	return r
}

func (w *World) ValUnjail(v *Val) PhaseResult {
	r := guard(func() error {
		val, err := w.App.StakingKeeper.GetValidator(w.Ctx, v.ValAddr)
		if err != nil {
			return err
		}
		if !val.Jailed {
			return fmt.Errorf("not jailed")
		}
		cons, err := val.GetConsAddr()
		if err != nil {
			return err
		}
		return w.App.StakingKeeper.Unjail(w.Ctx, cons)
	})
	w.emit("ValUnjail", Rec{"val": v.Name}, r)
	return r
}

// backersOf lists the delegators recorded in the stake snapshot taken when the (claimed) report was made.
func (w *World) backersOf(rep oracletypes.MicroReport) []string {
	out := []string{}
	ra, err := sdk.AccAddressFromBech32(rep.Reporter)
	if err != nil {
		return out
	}
	da, err := w.App.ReporterKeeper.Report.Get(w.Ctx, collections.Join(rep.QueryId, collections.Join(ra.Bytes(), rep.BlockNumber)))
	if err != nil {
		return out
	}
	seen := map[string]bool{}
	for _, o := range da.TokenOrigins {
		n := w.Name(sdk.AccAddress(o.DelegatorAddress).String())
		if !seen[n] {
			seen[n] = true
			out = append(out, n)
		}
	}
	return out
}

// RegisterEVM stores an EVM address for a validator operator, as the pre-blocker does with the address
// recovered from a validator's initial signatures (environment event; the signature path itself is C17).
func (w *World) RegisterEVM(v *Val) PhaseResult {
	evm := make([]byte, 20)
	evm[0] = 0xE0
	for i, x := range w.Vals {
		if x == v {
			evm[19] = byte(i + 1)
		}
	}
	r := guard(func() error {
		if ok, _ := w.App.BridgeKeeper.OperatorToEVMAddressMap.Has(w.Ctx, v.ValAddr.String()); ok {
			return fmt.Errorf("already registered")
		}
		return w.App.BridgeKeeper.SetEVMAddressByOperator(w.Ctx, v.ValAddr.String(), evm)
	})
	w.emit("RegisterEVM", Rec{"val": v.Name}, r)
	return r
}

// SignValset stores a validator's signature for the latest checkpoint, as the pre-blocker does with
// the signature carried by that validator's vote extension.
func (w *World) SignValset(v *Val) PhaseResult {
	var ts uint64
	r := guard(func() error {
		t, err := w.App.BridgeKeeper.GetCurrentValidatorSetTimestamp(w.Ctx)
		if err != nil {
			return err
		}
		ts = t
		return w.App.BridgeKeeper.SetBridgeValsetSignature(w.Ctx, v.ValAddr.String(), t, "aabbcc"+fmt.Sprintf("%02x", len(v.Name)))
	})
	w.emit("SignValset", Rec{"val": v.Name, "cpts": NumU64(ts)}, r)
	return r
}

// evidenceFacts projects, for a report named in a dispute message, what the chain's stores hold about it
// BEFORE the message executes: whether a micro report with exactly these fields exists, the stake snapshot
// recorded when it was made, and whether it determined an aggregate.
func (w *World) evidenceFacts(rep oracletypes.MicroReport) Rec {
	out := Rec{"genuine": false, "determined": false, "snap": Rec{"total": Signed{Mag: Num{}}, "origins": []Rec{}}, "hassnap": false}
	ra, err := sdk.AccAddressFromBech32(rep.Reporter)
	if err != nil {
		return out
	}
	_ = w.App.OracleKeeper.Reports.Walk(w.Ctx, nil, func(k collectionsTriple, r oracletypes.MicroReport) (bool, error) {
		if string(k.K1()) == string(rep.QueryId) && r.Reporter == rep.Reporter && r.BlockNumber == rep.BlockNumber && r.Value == rep.Value && r.Power == rep.Power &&
			r.Timestamp.Equal(rep.Timestamp) && r.AggregateMethod == rep.AggregateMethod && r.QueryType == rep.QueryType && r.Cyclelist == rep.Cyclelist {
			out["genuine"] = true
		}
		return false, nil
	})
	if da, err := w.App.ReporterKeeper.Report.Get(w.Ctx, collections.Join(rep.QueryId, collections.Join(ra.Bytes(), rep.BlockNumber))); err == nil {
		out["snap"] = w.originsRec(da)
		out["hassnap"] = true
	}
	_ = w.App.OracleKeeper.Aggregates.Walk(w.Ctx, nil, func(k collections.Pair[[]byte, uint64], a oracletypes.Aggregate) (bool, error) {
		if string(k.K1()) == string(rep.QueryId) && a.MicroHeight == rep.BlockNumber && int(a.AggregateReportIndex) < len(a.Reporters) && a.Reporters[a.AggregateReportIndex].Reporter == rep.Reporter {
			out["determined"] = true
			out["aggts"] = NumU64(k.K2())
		}
		return false, nil
	})
	return out
}
