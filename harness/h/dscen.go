package h

import (
	"bufio"
	"encoding/json"
	"fmt"
	"os"
	"strings"
	"time"

	disputetypes "github.com/tellor-io/layer/x/dispute/types"

	sdkmath "cosmossdk.io/math"
)

// DScenario is one scenario enumerated by TLC from DisputeScenario_MC.
type DScenario struct {
	Cat    int    `json:"cat"`
	Backer string `json:"backer"`
	Move   string `json:"move"`
	Fund   string `json:"fund"`
	Src    string `json:"src"`
	Result string `json:"result"`
	Back   string `json:"back"`
	Order  string `json:"order"`
}

// RunDScen executes each scenario on a fresh real chain: a reporter (own stake at two validators) with two selectors
// reports; one backer moves its stake as the scenario says; the report is disputed with the scenario's category, funding
// pattern and fee source; votes produce the scenario's result; after execution everybody claims (twice).  All messages are
// the real ones; the recorded trace is validated by the dispute trace specs (funding, stake, settlement).
func RunDScen(casesPath, tracePath, statsPath string, seed int64, proj string, valSlash bool) error {
	f, err := os.Open(casesPath)
	if err != nil {
		return err
	}
	defer f.Close()
	var cases []DScenario
	sc := bufio.NewScanner(f)
	sc.Buffer(make([]byte, 1<<20), 1<<26)
	for sc.Scan() {
		var c DScenario
		if err := json.Unmarshal(sc.Bytes(), &c); err != nil {
			return fmt.Errorf("bad case line: %v", err)
		}
		cases = append(cases, c)
	}
	i := 0
	reached := 0
	per := func(w *World) {
		c := cases[i]
		i++
		sec := time.Second
		o := HistOpts{Quiet: true}
		rep, s1, s2, payer, other, tipper := w.Users[0], w.Users[1], w.Users[2], w.Users[3], w.Users[4], w.Users[5]
		v0, v1, v2 := w.Vals[0], w.Vals[1], w.Vals[2]
		odd := int64(w.pick(999_983))
		w.block(o, sec,
			func() { w.Delegate(rep, v0, 120_000_000+odd) }, func() { w.Delegate(rep, v1, 30_000_000+int64(w.pick(99_991))) },
			func() { w.CreateReporter(rep, sdkmath.LegacyMustNewDecFromStr("0.1"), 1_000_000) },
			func() { w.Delegate(s1, v1, 70_000_000+int64(w.pick(999_979))) }, func() { w.Delegate(s1, v2, 7+int64(w.pick(5_000_000))) }, func() { w.SelectReporter(s1, rep) },
			func() { w.Delegate(s2, v0, 3_000_001) }, func() { w.SelectReporter(s2, rep) },
			func() { w.Delegate(other, v1, 450_000_000+int64(w.pick(999))) }, func() { w.Delegate(other, v2, 450_000_000+int64(w.pick(999))) },
			func() { w.CreateReporter(other, sdkmath.LegacyZeroDec(), 1_000_000) })
		q := w.currentCycleQuery()
		n0 := len(w.Reports)
		w.block(o, 2*sec, func() { w.Tip(tipper, q, 2_000_000) }, func() { w.Submit(rep, q, hex32(1234)) }, func() { w.Submit(other, q, hex32(1235)) },
			func() { w.Tip(tipper, "qada", 1_000_000) }, func() { w.Submit(rep, "qada", hex32(4321)) })
		if len(w.Reports) < n0+3 {
			return
		}
		report, report2 := w.Reports[n0], w.Reports[n0+2]
		w.EmptyBlocks(3, 2*sec)
		// ---- the backer's stake moves between report and dispute ----
		b, bv, bto := rep, v0, v2
		if c.Backer == "selector" {
			b, bv, bto = s1, v1, v0
		}
		tok := int64(0)
		for _, d := range w.ownTokens(b) {
			if d["val"] == bv.Name {
				tok = numToI64(d["tok"].(Num))
			}
		}
		part := tok - tok/int64(60+w.pick(300))
		switch c.Move {
		case "undel_part":
			w.block(o, 2*sec, func() { w.Undelegate(b, bv, part) })
		case "undel_all":
			w.block(o, 2*sec, func() { w.Undelegate(b, bv, tok) })
		// (two unbonding entries, almost nothing stays delegated: a slash of a few percent goes through the rest of the
		// delegation, all of a small first entry and into the second - or stops inside a large first entry)
		case "undel_two_small_first":
			a := tok / int64(50+w.pick(100))
			w.block(o, 2*sec, func() { w.Undelegate(b, bv, a) })
			w.block(o, 2*sec, func() { w.Undelegate(b, bv, part-a) })
		case "undel_two_big_first":
			a := tok / int64(50+w.pick(100))
			w.block(o, 2*sec, func() { w.Undelegate(b, bv, part-a) })
			w.block(o, 2*sec, func() { w.Undelegate(b, bv, a) })
		case "redel_part":
			w.block(o, 2*sec, func() { w.Redelegate(b, bv, bto, part) })
		case "redel_all":
			w.block(o, 2*sec, func() { w.Redelegate(b, bv, bto, tok) })
		case "redel_then_undel":
			w.block(o, 2*sec, func() { w.Redelegate(b, bv, bto, part) })
			w.block(o, 2*sec, func() { w.Undelegate(b, bto, part/2) })
		case "valjail":
			if bv != v0 {
				w.block(o, 2*sec, func() { w.ValJail(bv) })
			} else {
				w.block(o, 2*sec, func() { w.ValJail(v1) })
			}
		}
		// (C05 only) the validators are punished for an infraction committed before the stake moved: delegations are worth
		// less than their shares, unbonding entries and redelegations begun since hold less than their initial balance
		if valSlash && c.Move != "none" && c.Move != "valjail" && (strings.HasPrefix(c.Move, "undel_two") || (c.Cat+len(c.Fund))%2 == 0) {
			w.block(o, 2*sec, func() { w.ValSlash(v0, int64([]int{5, 50}[c.Cat%2]), 12) }, func() { w.ValSlash(v1, 5, 12) }, func() { w.ValSlash(v2, 50, 12) })
		}
		w.block(o, 2*sec)
		// ---- funding ----
		cat := disputetypes.DisputeCategory(c.Cat)
		full := sdkmath.NewIntFromUint64(report.Power).MulRaw(1_000_000)
		switch cat {
		case disputetypes.Warning:
			full = full.QuoRaw(100)
		case disputetypes.Minor:
			full = full.QuoRaw(20)
		}
		F := full.Int64()
		bond := c.Src == "bond"
		p1, p2 := payer, tipper
		if bond {
			p1 = other // a reporter pays from the stake selected to it
		}
		switch c.Fund {
		case "full":
			w.block(o, 2*sec, func() { w.ProposeDispute(p1, report, cat, F, bond, "scen") })
		case "parts":
			w.block(o, 2*sec, func() { w.ProposeDispute(p1, report, cat, F/3+7, bond, "scen") })
			w.block(o, 2*sec, func() { w.AddFee(p2, w.lastDisputeId(), F/3+11, false) })
			w.block(o, 2*sec, func() { w.AddFee(p1, w.lastDisputeId(), F, bond) })
		case "short":
			w.block(o, 2*sec, func() { w.ProposeDispute(p1, report, cat, F/2+1, bond, "scen") })
			w.block(o, 2*sec, func() { w.AddFee(p2, w.lastDisputeId(), F-(F/2+1)-F/40, false) }) // stops at 97.5%
			w.block(o, 2*sec)
			w.block(o, 2*sec, func() { w.AddFee(p2, w.lastDisputeId(), F, false) })
		case "expire":
			w.block(o, 2*sec, func() { w.ProposeDispute(p1, report, cat, F/2+1, bond, "scen") })
			w.block(o, 2*sec, func() { w.AddFee(p2, w.lastDisputeId(), F/5+3, false) })
			w.block(o, 24*time.Hour+sec)
			id := w.lastDisputeId()
			w.block(o, 2*sec, func() { w.WithdrawFeeRefund(p2, p1, id) }, func() { w.WithdrawFeeRefund(p1, p2, id) }, func() { w.WithdrawFeeRefund(p1, p1, id) })
			w.block(o, 2*sec, func() { w.AddFee(p2, id, F, false) })
			reached++
			return
		}
		id := w.lastDisputeId()
		if id == 0 {
			return
		}
		// a second, lighter dispute about another report of the same reporter while the first one's jail term runs
		if c.Cat == 2 {
			w.block(o, 2*sec, func() { w.ProposeDispute(payer, report2, disputetypes.Warning, int64(report2.Power)*10_000, false, "scen-second") })
		}
		// ---- votes ----
		ch := map[string]disputetypes.VoteEnum{"support": disputetypes.VoteEnum_VOTE_SUPPORT, "against": disputetypes.VoteEnum_VOTE_AGAINST, "invalid": disputetypes.VoteEnum_VOTE_INVALID}
		voters := []*Actor{w.Team, tipper, other, s2}
		switch c.Order {
		case "rep_first":
			voters = []*Actor{w.Team, tipper, rep, s2, s1, other}
		case "sel_first":
			voters = []*Actor{w.Team, s2, s1, rep, tipper, other}
		}
		if c.Result == "novote" {
			w.block(o, 2*sec)
		} else if c.Result == "noquorum" {
			w.block(o, 2*sec, func() { w.Vote(s2, id, disputetypes.VoteEnum_VOTE_SUPPORT) })
		} else {
			var vs []func()
			for _, v := range voters {
				v := v
				vs = append(vs, func() { w.Vote(v, id, ch[c.Result]) })
			}
			w.block(o, 2*sec, vs...)
		}
		// ---- what happens to the backer's validator before the stake comes back ----
		switch c.Back {
		case "valjail":
			w.block(o, 2*sec, func() { w.ValJail(v1) }, func() { w.ValJail(v2) })
		case "valunjail":
			w.block(o, 2*sec, func() { w.ValJail(v1) })
			w.block(o, 11*time.Minute, func() { w.ValUnjail(v1) })
		}
		w.block(o, 2*sec) // a quorum result executes here
		w.block(o, 48*time.Hour+sec)
		w.block(o, 25*time.Hour)
		w.block(o, 2*sec)
		// ---- claims, each twice ----
		for round := 0; round < 2; round++ {
			var cl []func()
			for _, p := range []*Actor{p1, p2, rep} {
				p := p
				cl = append(cl, func() { w.WithdrawFeeRefund(p, p, id) })
			}
			for _, v := range voters {
				v := v
				cl = append(cl, func() { w.ClaimReward(v, id) })
			}
			w.block(o, 2*sec, cl...)
		}
		w.block(o, 2*sec, func() { w.Unjail(rep) }, func() { w.Submit(rep, w.currentCycleQuery(), hex32(1236)) })
		reached++
	}
	if err := RunHist(tracePath, statsPath, HistDriverOpts{N: len(cases), Seed: seed, Proj: proj, PerHist: per}); err != nil {
		return err
	}
	if reached*10 < len(cases)*9 {
		return fmt.Errorf("only %d of %d scenarios ran to their end", reached, len(cases))
	}
	return nil
}

func numToI64(n Num) int64 {
	var v int64
	for i := len(n) - 1; i >= 0; i-- {
		v = v*10000 + int64(n[i])
	}
	return v
}
