package h

import (
	"bufio"
	"crypto/sha256"
	"encoding/binary"
	"encoding/hex"
	"encoding/json"
	"fmt"
	"math/rand"
	"os"
	"strings"

	"github.com/ethereum/go-ethereum/crypto"
	bridgetypes "github.com/tellor-io/layer/x/bridge/types"

	"github.com/cosmos/cosmos-sdk/crypto/hd"
	"github.com/cosmos/cosmos-sdk/crypto/keys/secp256k1"
	"github.com/cosmos/cosmos-sdk/crypto/keyring"
	sdk "github.com/cosmos/cosmos-sdk/types"
	signingtypes "github.com/cosmos/cosmos-sdk/types/tx/signing"
)

func bytesJ(b []byte) []int {
	out := make([]int, len(b))
	for i, x := range b {
		out[i] = int(x)
	}
	return out
}

func u64be(x uint64) []byte {
	b := make([]byte, 8)
	binary.BigEndian.PutUint64(b, x)
	return b
}

func randBytes(rng *rand.Rand, n int) []byte {
	b := make([]byte, n)
	rng.Read(b)
	return b
}

var u64Bounds = []uint64{0, 1, 2, 255, 256, 1 << 32, 1<<63 - 1, 1 << 63, ^uint64(0) - 1, ^uint64(0)}

func pickU64(rng *rand.Rand) uint64 {
	if rng.Intn(2) == 0 {
		return u64Bounds[rng.Intn(len(u64Bounds))]
	}
	return rng.Uint64()
}

// RunC15Gen writes the input cases (boundary + seeded random): validator sets of 1,2,3,100 members,
// thresholds / timestamps / ids up to 2^64-1, values of length 0,1,31,32,33,64,65,..., sender strings
// of length 0,31,32,45.
func RunC15Gen(casesPath string, seed int64, thorough bool) error {
	rng := rand.New(rand.NewSource(seed))
	tr, err := NewTrace(casesPath)
	if err != nil {
		return err
	}
	nrep := 3
	if thorough {
		nrep = 12
	}
	for rep := 0; rep < nrep; rep++ {
		for _, n := range []int{1, 2, 3, 7, 100} {
			var vs []Rec
			for i := 0; i < n; i++ {
				addr := randBytes(rng, 20)
				if rng.Intn(5) == 0 {
					addr = make([]byte, 20)
					addr[19] = byte(i)
				}
				p := pickU64(rng)
				if p > 1<<63 {
					p = 1 << 63
				}
				vs = append(vs, Rec{"addr": bytesJ(addr), "power": bytesJ(u64be(p))})
			}
			tr.Emit(Rec{"kind": "valset", "vs": vs})
		}
		// realistic sets (powers in whole tokens, totals of every residue mod 3): the chain also derives the two-thirds
		// power threshold that goes into the checkpoint from them
		for _, n := range []int{1, 2, 3, 4, 5, 13} {
			for res := 0; res < 3; res++ {
				var vs []Rec
				tot := 0
				for i := 0; i < n; i++ {
					p := 1 + rng.Intn(5_000_000)
					if i == n-1 {
						for (tot+p)%3 != res {
							p++
						}
					}
					tot += p
					vs = append(vs, Rec{"addr": bytesJ(randBytes(rng, 20)), "power": bytesJ(u64be(uint64(p)))})
				}
				tr.Emit(Rec{"kind": "valset", "vs": vs, "small": true})
			}
		}
		for i := 0; i < 6; i++ {
			tr.Emit(Rec{"kind": "checkpoint", "thr": bytesJ(u64be(pickU64(rng))), "ts": bytesJ(u64be(pickU64(rng))), "hash": bytesJ(randBytes(rng, 32))})
		}
		for _, vl := range []int{0, 1, 31, 32, 33, 64, 65, 96, 200} {
			tr.Emit(Rec{"kind": "attest", "qid": bytesJ(randBytes(rng, 32)), "value": bytesJ(randBytes(rng, vl)), "ts": bytesJ(u64be(pickU64(rng))), "power": bytesJ(u64be(pickU64(rng))),
				"prev": bytesJ(u64be(pickU64(rng))), "next": bytesJ(u64be(pickU64(rng))), "checkpoint": bytesJ(randBytes(rng, 32)), "attts": bytesJ(u64be(pickU64(rng)))})
		}
		for _, id := range []uint64{0, 1, 2, 1 << 32, ^uint64(0), rng.Uint64()} {
			tr.Emit(Rec{"kind": "query", "tolayer": true, "id": bytesJ(u64be(id))})
			tr.Emit(Rec{"kind": "query", "tolayer": false, "id": bytesJ(u64be(id))})
		}
		// sender strings are bech32 renderings of account addresses of 1..40 bytes (string lengths ~ 10..75,
		// crossing the 32- and 64-byte padding boundaries)
		for _, al := range []int{1, 5, 11, 12, 13, 14, 15, 20, 31, 32, 33, 40} {
			rl := []int{20, 20, 20, 0, 5, 19}[rng.Intn(6)]
			addr := sdk.AccAddress(randBytes(rng, al))
			tr.Emit(Rec{"kind": "wvalue", "rcpt": bytesJ(randBytes(rng, rl)), "sender": bytesJ([]byte(addr.String())), "senderaddr": bytesJ(addr), "amount": bytesJ(u64be(pickU64(rng)))})
		}
	}
	return tr.Close()
}

type c15Case struct {
	Kind       string `json:"kind"`
	Small      bool   `json:"small"`
	Vs         []struct{ Addr, Power []int } `json:"vs"`
	Thr        []int  `json:"thr"`
	Ts         []int  `json:"ts"`
	Hash       []int  `json:"hash"`
	Qid        []int  `json:"qid"`
	Value      []int  `json:"value"`
	Power      []int  `json:"power"`
	Prev       []int  `json:"prev"`
	Next       []int  `json:"next"`
	Checkpoint []int  `json:"checkpoint"`
	Attts      []int  `json:"attts"`
	Tolayer    bool   `json:"tolayer"`
	Id         []int  `json:"id"`
	Rcpt       []int  `json:"rcpt"`
	Sender     []int  `json:"sender"`
	Amount     []int  `json:"amount"`
	Senderaddr []int  `json:"senderaddr"`
}

func toB(x []int) []byte {
	b := make([]byte, len(x))
	for i, v := range x {
		b[i] = byte(v)
	}
	return b
}
func toU64(x []int) uint64 { return binary.BigEndian.Uint64(toB(x)) }

// RunC15 calls the chain's exported encoders on every case and hashes the spec's pre-images (computed
// by TLC, file prePath: one {"n":i,"pre":[bytes]} per line) with the real keccak-256.
func RunC15(casesPath, prePath, tracePath, statsPath string) error {
	c, err := NewChain(ChainOpts{NumVals: 1, RegisterEVM: true})
	if err != nil {
		return err
	}
	defer c.Close()
	pre := map[int][]byte{}
	pf, err := os.Open(prePath)
	if err != nil {
		return err
	}
	sc := bufio.NewScanner(pf)
	sc.Buffer(make([]byte, 1<<20), 1<<28)
	for sc.Scan() {
		var p struct {
			N   int   `json:"n"`
			Pre []int `json:"pre"`
		}
		if err := json.Unmarshal(sc.Bytes(), &p); err != nil {
			return err
		}
		pre[p.N] = toB(p.Pre)
	}
	pf.Close()
	tr, err := NewTrace(tracePath)
	if err != nil {
		return err
	}
	cf, err := os.Open(casesPath)
	if err != nil {
		return err
	}
	sc = bufio.NewScanner(cf)
	sc.Buffer(make([]byte, 1<<20), 1<<28)
	k := c.App.BridgeKeeper
	n := 0
	kinds := map[string]int{}
	var samples []any
	for sc.Scan() {
		if strings.TrimSpace(sc.Text()) == "" {
			continue
		}
		n++
		var cs c15Case
		var raw Rec
		if err := json.Unmarshal(sc.Bytes(), &cs); err != nil {
			return err
		}
		_ = json.Unmarshal(sc.Bytes(), &raw)
		p, ok := pre[n]
		if !ok {
			return fmt.Errorf("no spec pre-image for case %d", n)
		}
		spechash := hex.EncodeToString(crypto.Keccak256(p))
		rec := Rec{}
		for kk, v := range raw {
			rec[kk] = v
		}
		rec["spechash"] = spechash
		kinds[cs.Kind]++
		res := guard(func() error {
			switch cs.Kind {
			case "valset":
				set := &bridgetypes.BridgeValidatorSet{}
				for _, v := range cs.Vs {
					set.BridgeValidatorSet = append(set.BridgeValidatorSet, &bridgetypes.BridgeValidator{EthereumAddress: toB(v.Addr), Power: toU64(v.Power)})
				}
				enc, h, err := k.EncodeAndHashValidatorSet(c.Ctx, set)
				if err != nil {
					return err
				}
				rec["bytes"] = bytesJ(enc)
				rec["gohash"] = hex.EncodeToString(h)
				if cs.Small {
					// the threshold the chain stores (and signs into the checkpoint) for this set
					cctx, _ := c.Ctx.CacheContext()
					if err := k.SetBridgeValidatorParams(cctx, set); err != nil {
						return err
					}
					p, err := k.ValidatorCheckpointParamsMap.Get(cctx, uint64(cctx.BlockTime().UnixMilli()))
					if err != nil {
						return err
					}
					rec["gothr"] = int(p.PowerThreshold)
				}
			case "checkpoint":
				cctx, _ := c.Ctx.CacheContext()
				h, err := k.CalculateValidatorSetCheckpoint(cctx, toU64(cs.Thr), toU64(cs.Ts), toB(cs.Hash))
				if err != nil {
					return err
				}
				rec["gohash"] = hex.EncodeToString(h)
			case "attest":
				h, err := k.EncodeOracleAttestationData(toB(cs.Qid), hex.EncodeToString(toB(cs.Value)), toU64(cs.Ts), toU64(cs.Power), toU64(cs.Prev), toU64(cs.Next), toB(cs.Checkpoint), toU64(cs.Attts))
				if err != nil {
					return err
				}
				rec["gohash"] = hex.EncodeToString(h)
			case "query":
				var h []byte
				var err error
				if cs.Tolayer {
					h, err = k.GetDepositQueryId(toU64(cs.Id))
				} else {
					h, err = k.GetWithdrawalQueryId(toU64(cs.Id))
				}
				if err != nil {
					return err
				}
				rec["gohash"] = hex.EncodeToString(h)
			case "wvalue":
				b, err := k.GetWithdrawalReportValue(sdk.NewCoin(Denom, NumToInt(toU64(cs.Amount))), sdk.AccAddress(toB(cs.Senderaddr)), toB(cs.Rcpt))
				if err != nil {
					return err
				}
				rec["bytes"] = bytesJ(b)
				// amount is truncated to 64 bits by construction of the case
			}
			return nil
		})
		rec["ok"] = res.Ok
		if !res.Ok {
			rec["err"] = errClass(res.Err)
		}
		tr.Emit(rec)
		if len(samples) < 4 && n%17 == 3 {
			samples = append(samples, Rec{"kind": cs.Kind, "spechash": spechash, "gohash": rec["gohash"]})
		}
	}
	cf.Close()
	// signature convention: what validators produce (keyring.Sign = ECDSA over sha-256 of the message, 64 bytes)
	// is accepted by the contract's rule ecrecover(sha256(digest), v, r, s) == signer for v in {27,28}
	kr := keyring.NewInMemory(c.App.AppCodec())
	for i := 0; i < 8; i++ {
		name := fmt.Sprintf("k%d", i)
		_, _, err := kr.NewMnemonic(name, keyring.English, sdk.FullFundraiserPath, "", hd.Secp256k1)
		if err != nil {
			return err
		}
		digest := crypto.Keccak256([]byte(fmt.Sprintf("digest-%d", i)))
		sig, pub, err := kr.Sign(name, digest, signingtypes.SignMode_SIGN_MODE_DIRECT)
		if err != nil {
			return err
		}
		uncompressed, err := crypto.DecompressPubkey(pub.Bytes())
		if err != nil {
			return err
		}
		want := crypto.PubkeyToAddress(*uncompressed)
		h := sha256.Sum256(digest)
		rec := false
		for v := byte(0); v < 2; v++ {
			if pk, err := crypto.SigToPub(h[:], append(append([]byte{}, sig...), v)); err == nil && crypto.PubkeyToAddress(*pk) == want {
				rec = true
			}
		}
		tr.Emit(Rec{"kind": "sig", "ok": true, "siglen": len(sig), "recovers": rec && len(sig) == 64})
		kinds["sig"]++
	}
	// address registration: the address the chain derives from a validator's two initial signatures against the
	// contract's ecrecover (keccak-256 over the two coordinates as 32-byte words).  Keys whose X or Y coordinate has a
	// leading zero byte (one key in 128) are searched for: an encoder that drops leading zeros differs only there.
	{
		signInit := func(k *secp256k1.PrivKey, msg string) []byte {
			hh := sha256.Sum256([]byte(msg))
			sig, _ := k.Sign(hh[:])
			return sig
		}
		var normal, shortX, shortY []*secp256k1.PrivKey
		for i := 0; i < 20000 && (len(shortX) < 2 || len(shortY) < 2 || len(normal) < 6); i++ {
			pk := secp256k1.GenPrivKeyFromSecret([]byte(fmt.Sprintf("verif-c15-%d", i)))
			pub, err := crypto.DecompressPubkey(pk.PubKey().Bytes())
			if err != nil {
				continue
			}
			switch {
			case pub.X.BitLen() <= 248 && len(shortX) < 2:
				shortX = append(shortX, pk)
			case pub.Y.BitLen() <= 248 && len(shortY) < 2:
				shortY = append(shortY, pk)
			case len(normal) < 6:
				normal = append(normal, pk)
			}
		}
		for gi, group := range [][]*secp256k1.PrivKey{normal, shortX, shortY} {
			for _, pk := range group {
				pub, _ := crypto.DecompressPubkey(pk.PubKey().Bytes())
				var xy [64]byte
				pub.X.FillBytes(xy[:32])
				pub.Y.FillBytes(xy[32:])
				want := crypto.Keccak256(xy[:])[12:]
				rec := Rec{"kind": "evmaddr", "contract": hex.EncodeToString(want), "chain": "", "group": []string{"normal", "shortx", "shorty"}[gi]}
				res := guard(func() error {
					cctx, _ := c.Ctx.CacheContext()
					a, err := k.EVMAddressFromSignatures(cctx, signInit(pk, "TellorLayer: Initial bridge signature A"), signInit(pk, "TellorLayer: Initial bridge signature B"))
					if err != nil {
						return err
					}
					rec["chain"] = hex.EncodeToString(a.Bytes())
					return nil
				})
				rec["ok"] = res.Ok
				if !res.Ok {
					rec["err"] = errClass(res.Err)
				}
				tr.Emit(rec)
				kinds["evmaddr-"+rec["group"].(string)]++
			}
		}
	}
	st := map[string]any{"cases": n, "kinds": kinds, "lines": tr.N, "samples": samples}
	if err := tr.Close(); err != nil {
		return err
	}
	return WriteJSON(statsPath, st)
}
