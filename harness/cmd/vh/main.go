// vh: harness driver. It executes the real tellor-io/layer code and writes NDJSON traces that
// TLC validates against the TLA+ specifications in /verif/spec. It decides nothing itself.
package main

import (
	"flag"
	"fmt"
	"os"

	"verif/harness/h"
)

func main() {
	if len(os.Args) < 2 {
		fmt.Fprintln(os.Stderr, "usage: vh <driver> [flags]")
		os.Exit(2)
	}
	fs := flag.NewFlagSet(os.Args[1], flag.ExitOnError)
	cases := fs.String("cases", "", "cases / scenarios file produced by TLC (NDJSON)")
	trace := fs.String("trace", "trace.ndjson", "output trace")
	stats := fs.String("stats", "stats.json", "output driver statistics")
	seed := fs.Int64("seed", 1, "VERIF_SEED")
	thorough := fs.Bool("thorough", false, "thorough tier")
	n := fs.Int("n", 10, "number of histories")
	blocks := fs.Int("blocks", 30, "blocks per history")
	maxops := fs.Int("maxops", 5, "max messages per block")
	proj := fs.String("proj", "", "projection sections, comma separated")
	boundary := fs.Bool("boundary", false, "include boundary / malformed inputs")
	gov := fs.Bool("gov", false, "include governance-signed privileged ops")
	nobad := fs.Bool("nobad", false, "exclude inputs that trigger open halting findings")
	jumps := fs.Bool("jumps", false, "block-time gaps from 1ms to beyond 21 days")
	dbias := fs.Int("dbias", 0, "dispute op bias")
	sbias := fs.Int("sbias", 0, "staking op bias")
	bbias := fs.Int("bbias", 0, "bridge op bias")
	valstatus := fs.Bool("valstatus", false, "validator jail/unjail environment events")
	stories := fs.Int("stories", 50, "percent of histories with a scripted dispute story")
	replicas := fs.Int("replicas", 8, "replicas per history (C01)")
	probe := fs.Bool("probe", false, "probe aggregate getters after every block")
	pre := fs.String("pre", "", "spec pre-images computed by TLC (C15)")
	vbias := fs.Int("vbias", 0, "validator-set op bias (C16)")
	regone := fs.Bool("regone", false, "only v0 has an EVM address at genesis")
	allreg := fs.Bool("allreg", false, "c17: all validators have EVM addresses from the start and the checkpoints order them differently")
	nvals := fs.Int("nvals", 0, "number of genesis validators (default 3)")
	signed := fs.Bool("signed", false, "messages travel as signed transactions through the installed ante handler")
	signedhalf := fs.Bool("signedhalf", false, "every second history runs in signed mode")
	minthalf := fs.Bool("minthalf", false, "every second history starts minting in its first block")
	only := fs.Int("only", 0, "run only this history (1-based)")
	valslash := fs.Bool("valslash", false, "validators are slashed for infractions (SDK staking Slash) as environment events")
	fanout := fs.Bool("fanout", false, "every fourth history starts with a dispute story whose fee is paid twice from the bond of the reporter with most selectors")
	mintinit := fs.Bool("mintinit", false, "governance starts minting in the bootstrap block")
	_ = fs.Parse(os.Args[2:])
	var err error
	switch os.Args[1] {
	case "c06":
		err = h.RunC06(*cases, *trace, *stats, *seed, *thorough)
	case "c20median":
		err = h.RunC20Median(*cases, *trace, *stats)
	case "c20conc":
		err = h.RunC20Conc(*trace, *stats, *seed, *n, *blocks, *maxops, 2)
	case "c01":
		err = h.RunC01(*trace, *stats, *seed, *n, *replicas, h.HistOpts{Blocks: *blocks, MaxOpsPerBlk: *maxops, Boundary: *boundary, GovOps: *gov, TimeJumps: *jumps,
			MintInitEarly: *mintinit, ValStatus: *valstatus, Stories: *stories})
	case "c15gen":
		err = h.RunC15Gen(*cases, *seed, *thorough)
	case "c15":
		err = h.RunC15(*cases, *pre, *trace, *stats)
	case "c12tally":
		err = h.RunC12Tally(*cases, *trace, *stats)
	case "c17":
		err = h.RunC17(*cases, *trace, *stats, *seed, *allreg)
	case "c18":
		err = h.RunC18(*cases, *trace, *stats, *seed)
	case "c10sm":
		err = h.RunC10SM(*cases, *trace, *stats, *seed, *proj)
	case "dscen":
		err = h.RunDScen(*cases, *trace, *stats, *seed, *proj, *valslash)
	case "c12sm":
		err = h.RunC12SM(*cases, *trace, *stats, *seed, *proj)
	case "c07sm":
		err = h.RunC07SM(*cases, *trace, *stats, *seed, *proj)
	case "hist":
		err = h.RunHist(*trace, *stats, h.HistDriverOpts{N: *n, Seed: *seed, Proj: *proj, Only: *only, SignedHalf: *signedhalf, MintHalf: *minthalf, FanoutQ: *fanout,
			Opts: h.HistOpts{Blocks: *blocks, MaxOpsPerBlk: *maxops, Boundary: *boundary, GovOps: *gov, NoBadValues: *nobad, TimeJumps: *jumps,
				DisputeBias: *dbias, StakingBias: *sbias, BridgeBias: *bbias, MintInitEarly: *mintinit, ValStatus: *valstatus, ValSlash: *valslash, Stories: *stories, Probe: *probe, ValsetBias: *vbias}, World: h.WorldOpts{RegisterOnlyFirst: *regone, Chain: h.ChainOpts{Signed: *signed, NumVals: *nvals}}})
	default:
		err = fmt.Errorf("unknown driver %q", os.Args[1])
	}
	if err != nil {
		fmt.Fprintln(os.Stderr, "HARNESS-ERROR:", err)
		os.Exit(2)
	}
}
