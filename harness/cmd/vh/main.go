// vh: harness driver. It executes the real tellor-io/layer code and writes NDJSON traces that
// TLC validates against the TLA+ specifications in /verif/spec. It decides nothing itself.
package main

import (
	"flag"
	"fmt"
	"os"

	"verif/harness/h"
)

func main() {
	if len(os.Args) < 2 {
		fmt.Fprintln(os.Stderr, "usage: vh <driver> [flags]")
		os.Exit(2)
	}
	fs := flag.NewFlagSet(os.Args[1], flag.ExitOnError)
	cases := fs.String("cases", "", "cases / scenarios file produced by TLC (NDJSON)")
	trace := fs.String("trace", "trace.ndjson", "output trace")
	stats := fs.String("stats", "stats.json", "output driver statistics")
	seed := fs.Int64("seed", 1, "VERIF_SEED")
	thorough := fs.Bool("thorough", false, "thorough tier")
	_ = fs.Parse(os.Args[2:])
	var err error
	switch os.Args[1] {
	case "c06":
		err = h.RunC06(*cases, *trace, *stats, *seed, *thorough)
	default:
		err = fmt.Errorf("unknown driver %q", os.Args[1])
	}
	if err != nil {
		fmt.Fprintln(os.Stderr, "HARNESS-ERROR:", err)
		os.Exit(2)
	}
}
