#!/bin/bash
# sweep.sh <tier> <seed...> : run every check on the current tree for each seed; print one line per run
TIER=$1; shift
cd /verif
for s in "$@"; do
  for p in C01 C02 C03 C04 C05 C06 C07 C08 C09 C10 C11 C12 C13 C14 C15 C16 C17 C18 C19 C20; do
    t0=$(date +%s)
    VERIF_SEED=$s ./check $p --tier $TIER > /tmp/sweep_${TIER}_${p}_$s.txt 2>&1; rc=$?
    echo "seed=$s $p rc=$rc $(( $(date +%s) - t0 ))s $(grep -c '^VIOLATION' /tmp/sweep_${TIER}_${p}_$s.txt) viol $(grep -c '^KNOWN-FINDING' /tmp/sweep_${TIER}_${p}_$s.txt) known"
  done
done
