#!/bin/bash
# seedall.sh : regression of all stored seeded changes: each patch is applied in ONE scratch worktree of /repo (outside
# /repo and /verif), the checks named in seeded/<name>/checks.txt (or derived from the name) are built against it
# (VERIF_REPO) and run in the quick tier, the worktree is reverted.  /repo itself is never touched.
export GOFLAGS=-mod=mod GOPROXY=off GOSUMDB=off GOTOOLCHAIN=local
V=$(cd $(dirname $0); pwd)
WT=/tmp/seedwt
git -C /repo worktree remove --force $WT 2>/dev/null
git -C /repo worktree add -q --detach $WT HEAD || exit 2
cd $V
for d in $(for n in $SEEDS; do echo seeded/$n/; done); do
  NAME=$(basename $d)
  if [ -f $d/checks.txt ]; then CHECKS=$(cat $d/checks.txt); else CHECKS=$(echo $NAME | cut -c1-3); fi
  git -C $WT checkout -q -- .
  if ! git -C $WT apply $V/$d/patch.diff 2>/dev/null; then echo "$NAME patch does not apply to HEAD (superseded by a fix?)"; continue; fi
  echo "{\"confirmed\": \"demo passes on clean tree, fails with patch (confirmed in a scratch worktree when the seed was made)\", \"regression\": \"checks built against a scratch worktree of /repo HEAD with the patch applied\", \"checks\": {" > $d/verif_result.json
  for c in $CHECKS; do
    VERIF_REPO=$WT VERIF_RUN_TAG=seed ./check $c > /tmp/seedall_${NAME}_$c.txt 2>&1; rc=$?
    cl=$(grep -o 'violated clause [A-Za-z_]*' /tmp/seedall_${NAME}_$c.txt | sort | uniq -c | tr '\n' ';' | tr -s ' ')
    echo "\"$c\": {\"quick_rc\": $rc, \"clauses\": \"$cl\"}," >> $d/verif_result.json
    echo "$NAME $c rc=$rc $cl"
  done
  echo "\"_\": {}}}" >> $d/verif_result.json
done
git -C /repo worktree remove --force $WT
rm -rf /tmp/verif-altcache
