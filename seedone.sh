#!/bin/bash
# seedone.sh <seeded-name> <check-id>... : one stored seeded change against the named checks, in a scratch worktree (see seedall.sh)
export GOFLAGS=-mod=mod GOPROXY=off GOSUMDB=off GOTOOLCHAIN=local
NAME=$1; shift
WT=/tmp/seedwt1
git -C /repo worktree remove --force $WT 2>/dev/null
git -C /repo worktree add -q --detach $WT HEAD || exit 2
git -C $WT apply /verif/seeded/$NAME/patch.diff || { echo "patch does not apply"; git -C /repo worktree remove --force $WT; exit 2; }
cd /verif
for c in "$@"; do VERIF_REPO=$WT VERIF_RUN_TAG=seed1 ./check $c > /tmp/seedone_${NAME}_$c.txt 2>&1; rc=$?; echo "$NAME $c rc=$rc $(grep -o 'violated clause [A-Za-z_]*' /tmp/seedone_${NAME}_$c.txt | sort | uniq -c | tr '\n' ';' | tr -s ' ')"; done
git -C /repo worktree remove --force $WT
rm -rf /tmp/verif-altcache
